"""C32  A v1 certificate is reported only if it verifies the signature file  (engine E4: exhaustive single-fault enumeration).

Artefacts: v1-signed APKs built by gen/apkgen with the fixed test keys (gen/keys): {RSA-2048, EC P-256, DSA-2048} x
{SHA-1, SHA-256} x {without, with signed attributes} x minSdkVersion {absent (no manifest), 24 (binary manifest written by
gen/axmlgen)}.  Each shard builds its signed artefact ONCE (DSA signatures are randomised) and enumerates faults on those
fixed bytes; a witness carries the PKCS#7 bytes so a replay sees the identical artefact.
Faults (single byte substitutions, everything else untouched), fault sites = every byte of META-INF/CERT.SF, of the
SignerInfo signature value, of the signed attributes ([0] tag, length, both attributes) and of issuerAndSerialNumber:
  quick     .SF bytes x all 255 other values on ONE artefact per key type (<key>/sha256/no signed attributes/minSdk absent:
            3 artefacts); every other site of every one of the 24 artefacts (incl. the .SF of the other 21) x the 8-value
            alphabet E8 = {b^01, b^02, b^40, b^80, 00, 7f, ff, ~b} (values equal to b or to each other dropped)
  thorough  .SF bytes and signature-value bytes x all 255 other values on all 24 artefacts; signed attributes and
            issuer/serial x E8
The number of sites and of mutants per alphabet is counted and checked against sites x 255 in finalize().
driven through the REAL APK.get_certificate_der on a real APK object whose get_file() is served from memory (seam below the
zip layer: one zip parse per shard instead of one per mutant); one value (^01) per fault site is ALSO pushed through the full
path (zip rebuilt by stdlib zipfile -> APK(raw) -> get_certificate_der, get_certificates_v1) and both paths must agree.
Structural variants (full path, minSdk absent / 23 / 24): unrelated certificate first in the bag; SignerInfo referencing
certificate A while signed with key B (same and different key type, A in / not in the bag); the reference's serial INTEGER as {+1, negated, top
byte replaced, extra top byte, leading 00 dropped (sign flip), 0xff prefixed, extra leading 00 (equal value: observed only)} for a
certificate whose serial needs the DER sign octet and one whose serial does not; two SignerInfos (bad,good /
good,bad / bad-signature,good); signed attributes whose messageDigest is right but the signature is over the .SF; signed
attributes with the digest of other content; signed attributes whose messageDigest has the wrong LENGTH (empty, 1 / n-1 byte prefix
of the correct and of a wrong digest, correct digest + 1 byte; signature valid over them; genuine and altered .SF); signedAttrs stored
with a non-minimal BER length (A0 81 nn / A0 82 00 nn) signed over the DER re-encoding (judged: no certificate) and over the stored
bytes (observed only); declared digest algorithm different from the one signed with; a second,
corrupted signature block next to a valid one.
History: every judged case is an explicit history in ONE process - first a DECOY (a different validly signed APK with the same
entry and signer file names, signed by the other test key of that type), then the genuine artefact goes through get_certificate_der
first (same path), then the substitution values of one fault site in order (structural variants: variant, the genuine
artefacts of that key/digest with and without signed attributes, the same variant again); replay() re-runs exactly that history, so state carried between calls (e.g. a cache of verified signatures)
is part of what is judged.
Container order: the genuine artefact with its 4 zip entries in all 24 orders x central directory same / reversed.
Oracle: valid artefact -> exactly the signer's DER certificate (get_certificate_der, get_certificate, get_certificates_v1,
get_certificates, get_signature_names / get_signature_name / get_signatures / is_signed_v1 / is_signed agreeing); any fault -> None or an exception, never a certificate (of anyone).  For two-SignerInfo files only
"never a certificate that does not verify" is judged (which SignerInfos are consulted per minSdk is documented behaviour,
not part of the statement): the outcome is counted in the evidence.
"""
from mc.core import Acc

PROPERTY = "C32"
LEVEL = "fault_enumeration"
RULE = ("24 v1-signed artefacts (3 key types x 2 digests x signed attributes y/n x minSdk absent/24); fault sites = every byte of the "
        ".SF, the signature value, the signed attributes, issuer+serial; quick: .SF x 255 values on 3 artefacts (one per key type) and "
        "the 8-value alphabet {^01,^02,^40,^80,00,7f,ff,~b} on every other site of all artefacts; thorough: .SF and signature x 255 on "
        "all artefacts; every mutant differs from the valid artefact in exactly one byte (distinct by construction); + one value per "
        "site through the full zip path; + 11 (29 with signed attributes) structural variants x minSdk {absent, 23, 24} per "
        "key/digest/attribute combination")
ASSUMPTIONS = ["gen/apkgen builds the PKCS#7 SignedData with asn1crypto and signs with `cryptography` (the same libraries androguard "
               "parses/verifies with; the container, the JAR files and the fault injection are independent)",
               "the in-memory get_file seam is faithful: bound to the full zip path by one value per fault site (disagreement is a "
               "harness error)",
               "for files with two SignerInfos only 'no non-verifying certificate' is judged",
               "'verifies over the signed attributes' = over the STORED attribute bytes with the tag octet set to 0x31, as Android's "
               "V1SchemeVerifier (which androguard ports) hashes them; signedAttrs with a non-minimal BER length whose signature is only "
               "valid over the DER re-encoding must yield no certificate; the opposite case (valid over the stored bytes) is observed, not judged",
               "key/digest combinations refused by the installed `cryptography` at signing time are dropped (listed in space())"]
MANIFEST = {
    "engine": "E4-faults",
    "technique": "exhaustive single-byte fault enumeration on generated v1 signatures + structural signer/certificate variants",
    "text": "For every key type, digest, signed-attribute and minSdk combination a validly signed APK must yield exactly the "
            "signer's certificate, and every enumerated single-byte substitution of the .SF, the signature value, the signed attributes "
            "and the issuer/serial reference (quick: 255 values per .SF byte on one artefact per key type, 8 values per byte elsewhere; "
            "thorough: 255 values per .SF and signature byte everywhere) as well as every listed structural forgery must yield no "
            "certificate at all. Complete for the stated sites x alphabets of the generated artefacts.",
    "note": "Trusted: asn1crypto/cryptography for building the artefacts, stdlib zipfile. RSA/ECDSA artefacts are reproducible; DSA "
            "ones are not, witnesses carry the bytes.",
}

KINDS = ["rsa", "ec", "dsa"]
ALGS = ["sha1", "sha256"]
OTHER = {"rsa": "rsa2", "ec": "ec2", "dsa": "dsa2"}
OTHERTYPE = {"rsa": "ec", "ec": "dsa", "dsa": "rsa"}
HEAVY_PARTS_QUICK = 12
HEAVY_PARTS_THOROUGH = 8
EIGHT = "8"
ALL = "255"
ONE = "1"                       # {b^01}: the full-zip-path binding


def heavy_quick(cfg):
    """the one artefact per key type whose .SF gets the 255-value alphabet in the quick tier"""
    return cfg[1] == "sha256" and cfg[2] is False and cfg[3] is None

_refused = None


def refused():
    """(kind, alg) combinations the installed cryptography refuses to SIGN with -> dropped from the space"""
    global _refused
    if _refused is None:
        from gen import apkgen as G
        _refused = []
        for k in KINDS:
            for a in ALGS:
                try:
                    G.raw_sign(k, a, b"probe")
                except Exception as e:     # noqa
                    _refused.append([k, a, "%s: %s" % (type(e).__name__, e)])
    return _refused


def configs():
    bad = {(k, a) for k, a, _ in refused()}
    return [(k, a, at, ms) for k in KINDS for a in ALGS if (k, a) not in bad for at in (False, True) for ms in (None, 24)]


# ------------------------------------------------------------------------------------------------ artefacts
_axml = {}


def manifest_axml(minsdk):
    if minsdk not in _axml:
        from gen import axmlgen as X
        doc = {"utf8": False, "resmap": True, "root": {
            "ns": None, "name": "manifest", "decl": [["android", X.ANDROID_NS]],
            "attrs": [{"ns": None, "name": "package", "t": X.TYPE_STRING, "d": 0, "s": "verif.c32"}],
            "kids": [{"ns": None, "name": "uses-sdk", "decl": [], "kids": [],
                      "attrs": [{"ns": X.ANDROID_NS, "name": "minSdkVersion", "t": X.TYPE_INT_DEC, "d": minsdk,
                                 "rid": 0x0101020C}]}]}}
        _axml[minsdk] = X.serialize(X.build(doc))
    return _axml[minsdk]


def payload(minsdk):
    return [("a.txt", b"hello")] if minsdk is None else [("AndroidManifest.xml", manifest_axml(minsdk))]


class Art:
    pass


def build_art(cfg, p7=None, p7_builder=None):
    """One signed artefact.  p7: reuse these PKCS#7 bytes (replay); p7_builder(sf) -> bytes: structural variants."""
    from gen import apkgen as G
    kind, alg, attrs, minsdk = cfg
    art = Art()
    art.cfg = cfg
    ents = payload(minsdk)
    if p7 is not None:
        build = lambda sf: p7                                                     # noqa
    elif p7_builder is not None:
        build = p7_builder
    else:
        build = lambda sf: G.pkcs7([G.signer_info(sf, kind, alg, attrs)], [kind], [alg])     # noqa
    meta, art.sf, art.p7 = G.v1_files(ents, alg, build, ext=G.block_ext(kind))
    art.entries = ents + meta
    art.sf_name, art.p7_name = meta[1][0], meta[2][0]
    art.signer_der = G.cert_der(kind)
    return art


def zip_of(art, replace=None):
    from gen import apkgen as G
    replace = replace or {}
    return G.make_zip([(n, replace.get(n, d), "deflated") for n, d in art.entries], cd_order=getattr(art, "cd_order", None))


_decoys = {}


def run_decoy(cfg):
    """DECOY HISTORY: a validly signed but DIFFERENT APK with the same entry and signer file names (META-INF/CERT.SF, CERT.<ext>),
    same key type / digest / attribute setting / minSdk, other payload content and signed by the OTHER test key of that type, is
    opened and asked for its certificate first (result ignored).  Called at the top of every judged history, so also in replay()."""
    from androguard.core import apk as A
    from gen import apkgen as G
    kind, alg, attrs, minsdk = cfg
    if cfg not in _decoys:
        ents = [(n, d if n == "AndroidManifest.xml" else b"decoy payload") for n, d in payload(minsdk)] + [("zz/extra.txt", b"decoy")]
        other = OTHER[kind]
        meta, _, _ = G.v1_files(ents, alg, lambda sf: G.pkcs7([G.signer_info(sf, other, alg, attrs)], [other], [alg]),
                                ext=G.block_ext(kind))
        _decoys[cfg] = (G.make_zip([(n, d, "deflated") for n, d in ents + meta]), meta[2][0])
    try:
        a = A.APK(_decoys[cfg][0], raw=True, skip_analysis=True)        # cheapest constructor: the result is ignored anyway
        observe(a, _decoys[cfg][1])
    except Exception:     # noqa
        pass


def fields(art):
    """Fault sites inside the PKCS#7 blob: {field: (offset, length, [(sub-name, start, end) relative])}"""
    from asn1crypto import cms
    from gen import apkgen as G
    si = cms.ContentInfo.load(art.p7)["content"]["signer_infos"][0]
    out = {}
    sig = si["signature"].native
    out["signature"] = (G.locate(art.p7, sig), len(sig), [("signature", 0, len(sig))])
    sid = si["sid"].dump()
    iss = si["sid"].chosen["issuer"].dump()
    ser = si["sid"].chosen["serial_number"].dump()
    hdr = len(sid) - len(iss) - len(ser)
    out["sid"] = (G.locate(art.p7, sid), len(sid), [("header", 0, hdr), ("issuer", hdr, hdr + len(iss)), ("serial", hdr + len(iss), len(sid))])
    if art.cfg[2]:
        sa = si["signed_attrs"].dump()
        assert sa[:1] == b"\xa0"
        subs, pos = [], len(sa) - sum(len(a.dump()) for a in si["signed_attrs"])
        subs.append(("header", 0, pos))
        for a in si["signed_attrs"]:
            n = len(a.dump())
            subs.append((a["type"].native.replace("_", "-"), pos, pos + n))
            pos += n
        out["signed-attrs"] = (G.locate(art.p7, sa), len(sa), subs)
    return out


def sites(art):
    """[(field, offset inside the field)] in a fixed order"""
    f = fields(art)
    s = [("sf", i) for i in range(len(art.sf))]
    for name in ("signature", "signed-attrs", "sid"):
        if name in f:
            s += [(name, i) for i in range(f[name][1])]
    return s, f


def values(orig, alphabet):
    if alphabet == ALL:
        return [v for v in range(256) if v != orig]
    if alphabet == ONE:
        return [orig ^ 0x01]
    out = []
    for v in (orig ^ 0x01, orig ^ 0x02, orig ^ 0x40, orig ^ 0x80, 0x00, 0x7F, 0xFF, orig ^ 0xFF):
        if v != orig and v not in out:
            out.append(v)
    return out


def mutate(art, f, mut):
    """-> (file name, new content)"""
    field, off, val = mut
    if field == "sf":
        b = bytearray(art.sf)
        b[off] = val
        return art.sf_name, bytes(b)
    b = bytearray(art.p7)
    b[f[field][0] + off] = val
    return art.p7_name, bytes(b)


def sub_field(f, mut):
    field, off, _ = mut
    if field == "sf":
        return "sf"
    for name, a, b in f[field][2]:
        if a <= off < b:
            return field if name == field else "%s:%s" % (field, name)
    return field


def key_of(art, f, mut):
    kind, alg, attrs, minsdk = art.cfg
    return "%s:%s:%s" % (sub_field(f, mut), "signed-attrs" if attrs else "no-attrs", kind)


# ------------------------------------------------------------------------------------------------ observation
def observe(a, name):
    try:
        r = a.get_certificate_der(name)
    except Exception as e:     # noqa
        return ("exc", type(e).__name__)
    if r is None:
        return ("none",)
    return ("cert", bytes(r))


def fast_apk(art):
    """Real APK object over the real zip; get_file() served from a dict so single files can be swapped without re-zipping."""
    from androguard.core import apk as A
    a = A.APK(zip_of(art), raw=True)
    store = dict(art.entries)

    def get_file(name):
        try:
            return store[name]
        except KeyError:
            raise A.FileNotPresent(name)
    a.get_file = get_file
    return a, store


def full_obs(art, replace=None, alt=True):
    """Full path: rebuilt zip -> APK -> get_certificate_der + get_certificates_v1 + get_signature_names"""
    from androguard.core import apk as A
    a = A.APK(zip_of(art, replace), raw=True)
    o = observe(a, art.p7_name)
    try:
        v1 = [c.dump() for c in a.get_certificates_v1()]
    except Exception as e:     # noqa
        v1 = ("exc", type(e).__name__)
    try:
        names = list(a.get_signature_names())
    except Exception as e:     # noqa
        names = ("exc", type(e).__name__)
    if not alt:                                  # priming runs of a history: result not judged, keep them cheap
        return o, v1, names
    # alternative entry points must tell the same story; a disagreement is folded into (v1, names) so that every caller's
    # existing judgement sees it: an extra certificate makes a corrupted file "report a certificate", a missing one makes a valid
    # file "not exactly the signer's certificate"
    try:
        c = a.get_certificate(art.p7_name)
        c = None if c is None else c.dump()
        if (c is not None or o[0] == "cert") and c != (o[1] if o[0] == "cert" else None) and isinstance(v1, list):
            v1 = v1 + [c if c is not None else b"<get_certificate() returned None where get_certificate_der() gave a certificate>"]
    except Exception:     # noqa
        pass                                            # an exception reports no certificate
    try:
        allc = [x.dump() for x in a.get_certificates()]
        if isinstance(v1, list):
            uniq = [x for i, x in enumerate(v1) if x not in v1[:i]]
            if allc != uniq:
                v1 = v1 + [x for x in allc if x not in v1] + ([b"<get_certificates() lacks a certificate get_certificates_v1() lists>"]
                                                              if any(x not in allc for x in v1) else [])
    except Exception:     # noqa
        pass
    try:
        if isinstance(names, list):
            first = a.get_signature_name()
            sigs = [bytes(x) for x in a.get_signatures()]
            files = dict(art.entries)
            files.update(replace or {})
            ok = (first == (names[0] if names else None) and bool(a.is_signed_v1()) == bool(names) and bool(a.is_signed()) == bool(names)
                  and sigs == [files[n] for n in names] and a.get_signature() == (sigs[0] if sigs else None))
            if not ok:
                names = ("alt-entry-points-disagree", first, len(sigs))
    except Exception as e:     # noqa
        names = ("exc", type(e).__name__)
    return o, v1, names


def who(der):
    from gen import apkgen as G
    for n in G.CERT_NAMES:
        if der == G.cert_der(n):
            return "the certificate of test key '%s'" % n
    return "an unknown certificate (%d bytes)" % len(der)


def describe(art):
    kind, alg, attrs, minsdk = art.cfg
    return "%s/%s/%s/minSdk=%s" % (kind, alg, "signed-attrs" if attrs else "no-attrs", minsdk)


def judge_valid(art, a=None):
    """-> list of (key, msg).  The unmodified artefact must yield exactly the signer's certificate on both paths."""
    kind, alg, attrs, minsdk = art.cfg
    key = "valid:%s:%s" % ("signed-attrs" if attrs else "no-attrs", kind)
    out = []
    if a is None:
        a, _ = fast_apk(art)
    run_decoy(art.cfg)
    o = observe(a, art.p7_name)
    if o != ("cert", art.signer_der):
        out.append((key, "%s: valid artefact: get_certificate_der -> %s, expected the signer's certificate"
                    % (describe(art), o[0] if o[0] != "cert" else who(o[1]))))
    o, v1, names = full_obs(art)
    if o != ("cert", art.signer_der) or v1 != [art.signer_der] or names != [art.p7_name]:
        out.append((key, "%s: valid artefact through the zip path: get_certificate_der -> %s, get_certificates_v1 -> %r certificates, "
                    "get_signature_names -> %r" % (describe(art), o[0], len(v1) if isinstance(v1, list) else v1, names)))
    return out


def judge_mut(art, f, a, store, mut, path="fast"):
    """-> (None | (key, msg), observation class)"""
    name, content = mutate(art, f, mut)
    if path == "fast":
        store[name] = content
        try:
            o = observe(a, art.p7_name)
        finally:
            store[name] = art.sf if name == art.sf_name else art.p7
        v1 = []
    else:
        o, v1, _ = full_obs(art, {name: content})
    if o[0] == "cert" or (isinstance(v1, list) and v1):
        der = o[1] if o[0] == "cert" else v1[0]
        return (key_of(art, f, mut),
                "%s: %s byte %d set to 0x%02x (%s path): %s was reported" % (describe(art), sub_field(f, mut), mut[1], mut[2], path, who(der))), "cert"
    return None, o[0] + (":" + o[1] if o[0] == "exc" else "")


def site_history(art, f, a, store, field, off, alphabet, path="fast", upto=None, with_decoy=True):
    """One judged HISTORY in this process: the genuine artefact is pushed through get_certificate_der first (same path), then
    every substitution value of this fault site in alphabet order.  Yields (mut, violation | None, reaction class) per value and
    first ("genuine", reaction).  run_shard and replay() both go through here, so a defect that needs the genuine block to have been
    seen before (caches, memoisation) shows up identically in a fresh replay process.  upto: stop after this value (replay)."""
    if with_decoy:
        run_decoy(art.cfg)
    if path == "fast":
        g = observe(a, art.p7_name)
    else:
        g = full_obs(art, alt=False)[0]
    yield "genuine", None, g[0]
    orig = art.sf[off] if field == "sf" else art.p7[f[field][0] + off]
    for val in values(orig, alphabet):
        mut = (field, off, val)
        r, cls = judge_mut(art, f, a, store, mut, path)
        yield mut, r, cls
        if upto is not None and val == upto:
            return


# ------------------------------------------------------------------------------------------------ structural variants
def flip_signature(si):
    from asn1crypto import cms
    sig = bytearray(si["signature"].native)
    sig[len(sig) // 2] ^= 0x01
    d = {k: si[k] for k in ("version", "sid", "digest_algorithm", "signature_algorithm")}
    if si["signed_attrs"].native:
        d["signed_attrs"] = si["signed_attrs"]
    d["signature"] = bytes(sig)
    return cms.SignerInfo(d)


def variants(kind, alg, attrs):
    """name -> (p7 builder(sf), expectation).  expectation: ('exact', key name) | ('nocert',) | ('only', key name)"""
    from gen import apkgen as G
    other, ot = OTHER[kind], OTHERTYPE[kind]
    S = lambda sf, **kw: G.signer_info(sf, kw.pop("key", kind), alg, attrs, **kw)      # noqa
    v = {
        "bag-unrelated-first": (lambda sf: G.pkcs7([S(sf)], [other, kind], [alg]), ("exact", kind)),
        "bag-unrelated-first-other-type": (lambda sf: G.pkcs7([S(sf)], [ot, kind], [alg]), ("exact", kind)),
        "ref-A-signed-with-B": (lambda sf: G.pkcs7([S(sf, refer=other)], [kind, other], [alg]), ("nocert",)),
        "ref-signer-signed-with-other-key": (lambda sf: G.pkcs7([S(sf, key=other, refer=kind)], [kind, other], [alg]), ("nocert",)),
        "ref-not-in-bag": (lambda sf: G.pkcs7([S(sf, refer=other)], [kind], [alg]), ("nocert",)),
        "ref-other-key-type": (lambda sf: G.pkcs7([S(sf, refer=ot)], [kind, ot], [alg]), ("nocert",)),
        "two-si-bad-good": (lambda sf: G.pkcs7([S(sf, refer=other), S(sf)], [other, kind], [alg]), ("only", kind)),
        "two-si-good-bad": (lambda sf: G.pkcs7([S(sf), S(sf, refer=other)], [kind, other], [alg]), ("only", kind)),
        "two-si-badsig-good": (lambda sf: G.pkcs7([flip_signature(S(sf)), S(sf)], [kind], [alg]), ("only", kind)),
        "declared-digest-differs": (lambda sf: G.pkcs7([S(sf, declare_alg=[x for x in ALGS if x != alg][0])], [kind], [alg]), ("nocert",)),
    }
    # signer reference: the serial INTEGER of issuerAndSerialNumber in other encodings / values, for a certificate whose serial
    # needs no sign octet (low: the ordinary test certificate) and one whose serial has the top bit set (high: <kind>9, same key).
    # Expectation by VALUE: a reference whose integer value differs from the certificate's must not select it.
    for cls, cn in (("low", kind), ("high", kind + "9")):
        so = G.serial_octets(cn)
        val = int.from_bytes(so, "big", signed=True)
        n = len(so)
        enc = {"plus-1": ((val + 1).to_bytes(n, "big", signed=True), ("nocert",)),
               "negative-same-magnitude": ((-val).to_bytes(n, "big", signed=True), ("nocert",)),
               "top-byte-replaced": (so[:n - 5] + bytes([so[n - 5] ^ 0x01]) + so[n - 4:], ("nocert",)),
               "extra-top-byte-01": (b"\x01" + so[-5:], ("nocert",)),
               # non-minimal DER, EQUAL value: not fixed by the statement -> observed and counted only
               "extra-leading-00": (b"\x00" + so, ("observe",))}
        if cls == "high":
            enc["exact"] = (so, ("exact", cn))
            enc["leading-00-dropped"] = (so[1:], ("nocert",))           # c8.. instead of 00 c8..: a negative, different integer
        else:
            enc["ff-prefixed"] = (b"\xff" + so, ("nocert",))            # value - 2^40: different integer
        for name, (octets, exp) in enc.items():
            v["serial:%s:%s" % (cls, name)] = (
                (lambda sf, cn=cn, octets=octets: G.pkcs7([G.signer_info_with_serial(sf, cn, alg, attrs, octets)], [cn], [alg])), exp)
    if attrs:
        v["attrs-ok-but-signature-over-sf"] = (lambda sf: G.pkcs7([S(sf, sign_over="sf")], [kind], [alg]), ("nocert",))
        v["attrs-digest-of-other-content"] = (lambda sf: G.pkcs7([S(sf, attr_digest_of=b"other content")], [kind], [alg]), ("nocert",))
        # messageDigest attribute of the wrong LENGTH, signature validly computed over those attributes: only the digest
        # comparison can reject (RFC 5652 11.2: the attribute must EQUAL the computed digest).  Each against the genuine .SF and
        # against a .SF with one byte altered (name suffix /altered-sf).
        # signedAttrs stored with a legal NON-minimal BER length.  RFC 5652 5.4 signs the DER re-encoding, but Android's
        # V1SchemeVerifier ("Android does not re-encode except for changing the first byte ... We do the same") and androguard, which
        # ports it (get_certificate_der docstring), hash the STORED bytes with the tag octet replaced.  Judged: a signature that is
        # only valid over the re-normalised DER form (sig-over-der) does not verify the stored attributes as the platform hashes them
        # -> no certificate.  NOT judged (observed, counted): sig-over-stored, which Android accepts and an RFC-strict verifier rejects.
        for form in ("81", "8200"):
            v["signed-attrs-ber-length:len-%s/sig-over-der" % form] = (
                (lambda sf, form=form: G.pkcs7([G.signer_info_ber_attrs(sf, kind, alg, form, "der")], [kind], [alg])), ("nocert",))
            v["signed-attrs-ber-length:len-%s/sig-over-stored" % form] = (
                (lambda sf, form=form: G.pkcs7([G.signer_info_ber_attrs(sf, kind, alg, form, "stored")], [kind], [alg])), ("observe",))
        import hashlib
        for md, make in MD_KINDS.items():
            for alt in ("", "/altered-sf"):
                v["messageDigest-truncated:%s%s" % (md, alt)] = (
                    (lambda sf, make=make: G.pkcs7([S(sf, attr_digest_value=make(hashlib.new(alg, sf).digest(),
                                                                                 hashlib.new(alg, b"other content").digest()))],
                                                   [kind], [alg])), ("nocert",))
    return v


# name -> f(correct digest, wrong digest) -> messageDigest attribute value
MD_KINDS = {"empty": lambda c, w: b"", "correct-prefix-1": lambda c, w: c[:1], "correct-prefix-n-1": lambda c, w: c[:-1],
            "wrong-prefix-1": lambda c, w: w[:1], "wrong-prefix-n-1": lambda c, w: w[:-1], "correct-plus-1": lambda c, w: c + b"\x00"}
STRUCT_MINSDK = [None, 23, 24]
# container order: every permutation of the four zip entries (payload, MANIFEST.MF, CERT.SF, CERT.<ext>) x central directory same / reversed
import itertools as _it
ORDER_NAMES = ["entry-order:%s/%s" % ("".join(map(str, p)), cd) for p in _it.permutations(range(4)) for cd in ("cd-same", "cd-reversed")]


def judge_struct(kind, alg, attrs, minsdk, name):
    """-> (list of (key, msg), observation class)"""
    from gen import apkgen as G
    cfg = (kind, alg, attrs, minsdk)
    tag = "%s/%s/%s/minSdk=%s variant %s" % (kind, alg, "signed-attrs" if attrs else "no-attrs", minsdk, name)
    sdk = "" if not name.startswith("two-si") else (":minsdk>=24" if (minsdk or 0) >= 24 else ":minsdk<24")
    key = "variant:%s%s:%s" % (name if not name.startswith("entry-order:") else "entry-order" + name[name.index("/"):], sdk, kind)
    out = []
    run_decoy(cfg)
    if name == "second-block-corrupt":
        # a valid block (kind) + a second block of another key type whose signature is corrupted
        art = build_art(cfg)
        ot = OTHERTYPE[kind]
        si = flip_signature(G.signer_info(art.sf, ot, alg, attrs))
        extra = [("META-INF/ZZ.SF", art.sf), ("META-INF/ZZ.%s" % G.block_ext(ot), G.pkcs7([si], [ot], [alg]))]
        art.entries = art.entries + extra
        from androguard.core import apk as A
        a = A.APK(zip_of(art), raw=True)
        o1, o2 = observe(a, art.p7_name), observe(a, extra[1][0])
        try:
            v1 = [c.dump() for c in a.get_certificates_v1()]
        except Exception as e:     # noqa
            v1 = ("exc", type(e).__name__)
        if o1 != ("cert", art.signer_der):
            out.append((key + ":valid-block", "%s: the valid block yields %s" % (tag, o1[0])))
        if o2[0] == "cert":
            out.append((key, "%s: the corrupted block yields %s" % (tag, who(o2[1]))))
        if isinstance(v1, list) and any(c != art.signer_der for c in v1):
            out.append((key, "%s: get_certificates_v1 lists %s" % (tag, [who(c) for c in v1])))
        if isinstance(v1, list) and art.signer_der not in v1:
            out.append((key + ":valid-block", "%s: get_certificates_v1 does not list the valid block's certificate" % tag))
        return out, "%s|%s" % (o1[0], o2[0])
    if name.startswith("entry-order:"):
        # the genuine artefact with its zip entries in another order / the central directory reversed: exactly the signer's cert
        art, exp = build_art(cfg), ("exact", kind)
        perm, cd = name[len("entry-order:"):].split("/")
        art.entries = [art.entries[int(c)] for c in perm]
        art.cd_order = [3, 2, 1, 0] if cd == "cd-reversed" else None
    else:
        builder, exp = variants(kind, alg, attrs)[name]
        art = build_art(cfg, p7_builder=builder)
    repl = None
    if name.endswith("/altered-sf"):
        b = bytearray(art.sf)
        b[len(b) // 2] ^= 0x01
        repl = {art.sf_name: bytes(b)}
    # history: the variant, then the genuine artefact of the same configuration, then the SAME variant bytes again; both
    # observations of the variant are judged (in a fresh replay process the first one is a cold start)
    o, v1, names = full_obs(art, repl)
    if name.startswith("entry-order:"):                      # 1728 of them: judged once after the decoy, no second pass
        g, (o2, v12) = ("cert", G.cert_der(kind)), (o, v1)
    else:
        g = full_obs(build_art(cfg), alt=False)[0]
        full_obs(build_art((kind, alg, not attrs, minsdk)), alt=False)   # the sibling genuine artefact (other signed-attribute
        o2, v12, _ = full_obs(art, repl)                                 # setting) too: its signature is over the bare .SF / the attributes
    if g != ("cert", G.cert_der(kind)):
        out.append(("valid:%s:%s" % ("signed-attrs" if attrs else "no-attrs", kind),
                    "%s: the genuine artefact verified between the two runs yields %s" % (tag, g[0])))
    certs = ([o[1]] if o[0] == "cert" else []) + (list(v1) if isinstance(v1, list) else [])
    certs += ([o2[1]] if o2[0] == "cert" else []) + (list(v12) if isinstance(v12, list) else [])
    if exp[0] == "exact" and (o2, v12) != (o, v1):
        out.append((key, "%s: the same file gave %s before and %s after the genuine artefact was verified" % (tag, o[0], o2[0])))
    if exp[0] == "exact":
        want = G.cert_der(exp[1])
        if o != ("cert", want) or v1 != [want]:
            out.append((key, "%s: expected exactly the signer's certificate, get_certificate_der -> %s, get_certificates_v1 -> %s"
                        % (tag, who(o[1]) if o[0] == "cert" else o[0], [who(c) for c in v1] if isinstance(v1, list) else v1)))
    elif exp[0] == "observe":
        pass
    elif exp[0] == "nocert":
        if certs:
            out.append((key, "%s: %s was reported for a signature that does not verify" % (tag, who(certs[0]))))
    else:
        bad = [c for c in certs if c != G.cert_der(exp[1])]
        if bad:
            out.append((key, "%s: %s was reported, whose SignerInfo does not verify" % (tag, who(bad[0]))))
    return out, o[0]


# ------------------------------------------------------------------------------------------------ shards
def shards(ctx):
    sh = []
    cfgs = configs()
    for i, cfg in enumerate(cfgs):
        # ("bytes", artefact, part, parts, alphabet for .SF bytes, alphabet for signature bytes); attributes / sid: always E8
        if ctx.thorough:
            sh += [("bytes", i, p, HEAVY_PARTS_THOROUGH, ALL, ALL) for p in range(HEAVY_PARTS_THOROUGH)]
        elif heavy_quick(cfg):
            sh += [("bytes", i, p, HEAVY_PARTS_QUICK, ALL, EIGHT) for p in range(HEAVY_PARTS_QUICK)]
        else:
            sh.append(("bytes", i, 0, 1, EIGHT, EIGHT))
    sh += [("bind", i) for i in range(len(cfgs))]
    bad = {(k, a) for k, a, _ in refused()}
    sh += [("struct", k, a, at) for k in KINDS for a in ALGS if (k, a) not in bad for at in (False, True)]
    return sh


def space(ctx):
    from gen import apkgen as G
    art = build_art(("rsa", "sha256", True, None))
    _, f = sites(art)
    return {"artefacts": [list(c) for c in configs()], "refused_by_cryptography": refused(),
            "E8": "{b^01, b^02, b^40, b^80, 00, 7f, ff, ~b} minus b, duplicates dropped",
            "byte_alphabet": ({"sf": "all 255 other values, all artefacts", "signature": "all 255 other values, all artefacts",
                               "signed-attrs": "E8", "sid": "E8"} if ctx.thorough else
                              {"sf": "all 255 other values on the 3 artefacts %r; E8 on the other 21"
                                     % [list(c) for c in configs() if heavy_quick(c)],
                               "signature": "E8", "signed-attrs": "E8", "sid": "E8"}),
            "example_sizes(rsa/sha256/attrs)": {"sf": len(art.sf), "pkcs7": len(art.p7), "signature": f["signature"][1],
                                                "signed-attrs": f["signed-attrs"][1], "sid": f["sid"][1]},
            "full_path_binding": "every fault site of every artefact x value ^01 through zipfile -> APK(raw)",
            "structural_variants_built": "11 per (key, digest) without signed attributes, 29 with (13 + 6 wrong-length messageDigest "
                                         "kinds x {genuine, altered .SF} + 4 BER-length signedAttrs), each + 13 serial-reference variants + 48 entry-order variants, x minSdk %r" % (STRUCT_MINSDK,),
            "messageDigest_kinds": sorted(MD_KINDS),
            "structural_variants": sorted(variants("rsa", "sha256", True)) + ["second-block-corrupt"],
            "entry_order_variants": "all 24 orders of the 4 zip entries x central directory same / reversed = %d per combination and minSdk"
                                    % len(ORDER_NAMES),
            "decoy_history": "a different, validly signed APK with the same entry / signer file names (other key of the same type) is "
                             "opened and asked for its certificate at the top of every judged history",
            "alternative_entry_points(full path)": ["get_certificate", "get_certificates", "get_certificates_v1", "get_signature_name",
                                                    "get_signature", "get_signatures", "is_signed_v1", "is_signed"],
            "structural_minsdk": STRUCT_MINSDK, "cryptography_deterministic": {"rsa": True, "ec": "RFC 6979 if available", "dsa": False},
            "keys": G.KEY_NAMES}


def run_shard(ctx, shard):
    acc = Acc()
    if shard[0] == "struct":
        _, kind, alg, attrs = shard
        for minsdk in STRUCT_MINSDK:
            for name in list(variants(kind, alg, attrs)) + ["second-block-corrupt"] + ORDER_NAMES:
                res, cls = judge_struct(kind, alg, attrs, minsdk, name)
                acc.case(nontrivial=("struct", kind, alg, attrs, minsdk, name), outcome=("struct", name, cls))
                acc.count("structural_variants")
                acc.count("structural_variants_minsdk_%s" % minsdk)
                if name.startswith("signed-attrs-ber-length") and name.endswith("sig-over-stored") or name.endswith("extra-leading-00"):
                    acc.count("observed:%s:%s" % (name, cls))
                if name.startswith("two-si"):
                    acc.count("observed:%s:minsdk%s:%s" % (name, ">=24" if (minsdk or 0) >= 24 else "<24", cls))
                for key, msg in res:
                    acc.violation(key, {"struct": [kind, alg, attrs, minsdk, name]}, msg)
        return acc
    cfg = configs()[shard[1]]
    art = build_art(cfg)
    s, f = sites(art)
    a, store = fast_apk(art)
    wbase = {"cfg": list(cfg), "p7": art.p7.hex()}
    if shard[0] == "bind" or shard[2] == 0:
        res = judge_valid(art, a)
        acc.case(nontrivial=("valid",) + cfg, outcome=("valid", not res))
        acc.count("valid_artefacts_accepted" if not res else "valid_artefacts_rejected")
        for key, msg in res:
            acc.violation(key, dict(wbase, valid=True), msg)
    if observe(a, art.p7_name)[0] != "cert":
        acc.count("shards_skipped_base_rejected")       # enumeration would be vacuous; the 'valid:' violation reports it
        return acc
    if shard[0] == "bind":
        for field, off in s:
            (_, _, g1), (mut, r1, c1) = list(site_history(art, f, a, store, field, off, ONE, "fast"))
            (_, _, g2), (_, r2, c2) = list(site_history(art, f, a, store, field, off, ONE, "full", with_decoy=False))
            if g1 != "cert" or g2 != "cert":
                acc.count("genuine_rejected_inside_history")
            acc.case(outcome=("bind", field, c2))
            acc.nt_disjoint += 1
            acc.count("full_path_mutants")
            if (c1 == "cert") != (c2 == "cert"):
                acc.harness_error("in-memory seam and zip path disagree on %s %r: fast=%s full=%s" % (describe(art), mut, c1, c2))
            if r2:
                acc.violation(r2[0], dict(wbase, mut=list(mut), path="full", alpha=ONE), r2[1])
        return acc
    _, _, part, nparts, alpha_sf, alpha_sig = shard
    for field, off in s[part::nparts]:
        alphabet = {"sf": alpha_sf, "signature": alpha_sig}.get(field, EIGHT)
        acc.count("sites_%s_x%s" % (field, alphabet))
        for mut, r, cls in site_history(art, f, a, store, field, off, alphabet, "fast"):
            if mut == "genuine":
                acc.count("histories_genuine_first")
                if cls != "cert":
                    acc.count("genuine_rejected_inside_history")
                continue
            acc.count("mutants_%s_x%s" % (field, alphabet))
            acc.n += 1
            acc.nt_disjoint += 1
            acc.outcomes.add(hash((sub_field(f, mut), cls)))
            acc.count("mutants_" + field)
            if r:
                acc.violation(r[0], dict(wbase, mut=list(mut), path="fast", alpha=alphabet), r[1])
    if part == 0 and heavy_quick(cfg):
        acc.sample({"artefact": describe(art), "mutant": ["sf", 0, art.sf[0] ^ 1], "sf_bytes": len(art.sf), "pkcs7_bytes": len(art.p7)})
    return acc


def replay(ctx, w):
    if "struct" in w:
        kind, alg, attrs, minsdk, name = w["struct"]
        res, _ = judge_struct(kind, alg, attrs, minsdk, name)
        return "\n".join("%s: %s" % r for r in res) if res else None
    cfg = tuple(w["cfg"])
    art = build_art(cfg, p7=bytes.fromhex(w["p7"]) if w.get("p7") else None)
    if w.get("valid"):
        res = judge_valid(art)
        return "\n".join("%s: %s" % r for r in res) if res else None
    _, f = sites(art)
    a, store = fast_apk(art)
    field, off, val = w["mut"]
    last = None
    for mut, r, _ in site_history(art, f, a, store, field, off, w.get("alpha", ONE), w.get("path", "fast"), upto=val):
        last = (mut, r)
    if last is None or last[0] != (field, off, val):       # value not in the recorded alphabet: judge it alone after the genuine run
        r, _ = judge_mut(art, f, a, store, (field, off, val), w.get("path", "fast"))
        return r[1] if r else None
    return last[1][1] if last[1] else None


def finalize(ctx, acc):
    n = len(configs())
    if not acc.extra.get("valid_artefacts_accepted"):
        acc.harness_error("vacuous: no valid artefact was accepted - every fault verdict would be trivially 'no certificate'")
    if acc.extra.get("genuine_rejected_inside_history"):
        acc.note("the genuine artefact was rejected %d times inside a history (after being accepted at shard start)"
                 % acc.extra["genuine_rejected_inside_history"])
    for k in ("mutants_sf", "mutants_signature", "mutants_signed-attrs", "mutants_sid", "full_path_mutants", "structural_variants"):
        if not acc.extra.get(k) and not acc.extra.get("shards_skipped_base_rejected"):
            acc.harness_error("vacuous: counter %s is zero" % k)
    if not acc.extra.get("shards_skipped_base_rejected"):
        for fld in ("sf", "signature"):
            if acc.extra.get("mutants_%s_x255" % fld, 0) != 255 * acc.extra.get("sites_%s_x255" % fld, 0):
                acc.harness_error("%s: %d mutants for %d sites under the 255-value alphabet" % (
                    fld, acc.extra.get("mutants_%s_x255" % fld, 0), acc.extra.get("sites_%s_x255" % fld, 0)))
        if not acc.extra.get("sites_sf_x255"):
            acc.harness_error("no .SF site was enumerated with the 255-value alphabet")
        if ctx.thorough and (acc.extra.get("sites_sf_x8") or acc.extra.get("sites_signature_x8")):
            acc.harness_error("thorough tier must use the 255-value alphabet on every .SF and signature byte")
    nstruct = sum((42 + len(ORDER_NAMES) if at else 24 + len(ORDER_NAMES)) for k, a, at, ms in configs() if ms is None) * len(STRUCT_MINSDK)
    if acc.extra.get("structural_variants") != nstruct:
        acc.harness_error("structural variants built: %r, stated: %d" % (acc.extra.get("structural_variants"), nstruct))
    for ms in STRUCT_MINSDK:
        if acc.extra.get("structural_variants_minsdk_%s" % ms) != nstruct // len(STRUCT_MINSDK):
            acc.harness_error("structural variants at minSdk=%s: %r" % (ms, acc.extra.get("structural_variants_minsdk_%s" % ms)))
    if len(acc.outcomes) < 8 and not acc.extra.get("shards_skipped_base_rejected"):
        acc.harness_error("vacuous: only %d distinct (field, reaction) classes" % len(acc.outcomes))
    if n < 8:
        acc.harness_error("only %d artefact configurations usable (refused: %r)" % (n, refused()))
    if refused():
        acc.note("combinations refused by cryptography at signing time and dropped: %r" % refused())
