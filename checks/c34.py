"""C34  APK file access returns the archive's entries  (engine E2: bounded structure enumeration).

Space: zip archives written by the standard library `zipfile` (gen/apkgen.make_zip - independent of the apkInspector
reader androguard uses) over entry-name sets: (A) all subsets of size <= 4 (thorough: 5) of the 13-name alphabet NAMES[:13]
(DEX names, look-alikes, nested, non-ASCII, empty name), (B) all subsets of size 1..4 of {NFD accent, its NFC form, OHM SIGN,
GREEK OMEGA, Hangul jamo sequence, Hangul syllable, classes.dex, a/b/c} holding a normalisation-sensitive name, + the full
19-name set x entry method {stored, deflated, mixed} x content {empty, 1 byte, 70 kB, mixed}; every entry of an
archive has its own content.  The APK is opened with APK(raw, raw=True, skip_analysis=True): the cheapest constructor
path - the file-access API does not depend on the manifest analysis (a reduced set is also opened WITHOUT skip_analysis).
(C) every subset of size 2 and 3 of the first 13 names in every local-entry order with the central directory in the same and in
the reversed order; (D) one archive each with a 65535-byte entry name, a 65535-byte zip comment, both, and 1000 entries.
History: a decoy archive holding all 19 names with OTHER contents is opened and read through the same calls before every judged
archive (inside judge(), so also in replay()).
Oracle (the generating model):
  get_files()            = the entry names (as a multiset; order is not judged); every listed name is a stored name
                           (so get_file(listed name) gives that entry's content - checked with the next line)
  get_file(n)            = the entry's uncompressed content, for every entry
  get_files_crc32() / get_files_types() / files / get_files_information() / get_dex() / get_raw()
                         tell the same story (names; zlib.crc32 of each stored content; classes.dex or b""; the input bytes)
  get_file(absent)       raises FileNotPresent, for every alphabet name not in the archive + prefixes of present names
  get_dex_names()        = exactly the root entries  classes<ASCII digits>*.dex  (decided by string operations, no regexp)
  get_all_dex()          = their contents
  is_multidex()          <=> more than one of them
`classes02.dex` / `classes10.dex` are DEX (documented pattern classes(\\d*).dex); `classes2xdex`, `classes.dexx`,
`Classes.dex`, `xclasses.dex`, `lib/classes.dex`, `classes.dex\\n` are not (neither as glob classes*.dex nor as the
documented pattern).
"""
import itertools
import unicodedata
import zlib

from mc.core import Acc

PROPERTY = "C34"
LEVEL = "exploration"
RULE = ("all subsets of size <= 4 of a 13-name alphabet (plain / numbered / look-alike / nested / non-ASCII / empty name) + all "
        "subsets of size <= 4 of 6 Unicode-normalisation-sensitive names (NFD/NFC pairs) with 2 plain names + the full 19-name set, x {stored, deflated, mixed} x {empty, 1 byte, 70 kB, mixed} contents, each written by stdlib zipfile and "
        "opened by APK(raw=True); distinct by construction; non-trivial = at least one DEX or look-alike name in the archive")
ASSUMPTIONS = ["stdlib zipfile writes conforming archives (it re-reads every generated archive in the harness: testzip)",
               "order of get_files()/get_dex_names() is not judged (the statement speaks of the set of entries)",
               "names with non-ASCII digits (classes\\u0663.dex) or other text between 'classes' and '.dex' are not in the "
               "alphabet: the statement's glob and the documented pattern disagree on them",
               "duplicate entry names are not generated"]
MANIFEST = {
    "engine": "E2-structures",
    "technique": "bounded exhaustive enumeration of zip archives written by an independent writer (stdlib zipfile)",
    "text": "Every entry-name set of size <= 4 (and the full set) over an alphabet of DEX names, DEX look-alikes, nested, "
            "non-ASCII and empty names, in every method x content-size combination, is written by the standard library and "
            "opened through the real APK class; the file list, every entry's content, FileNotPresent for every absent name, the "
            "DEX listing, the DEX contents and the multidex flag must equal the generating model.",
    "note": "Trusted: stdlib zipfile as writer. Exhaustive for the stated alphabet and bound only.",
}

NAMES = ["classes.dex", "classes2.dex", "classes02.dex", "classes10.dex", "classes2xdex", "classes.dexx", "Classes.dex",
         "xclasses.dex", "lib/classes.dex", "assets/ünï/文件.txt", "", "a/b/c", "classes.dex\n",
         # names that are not stable under Unicode normalisation, each next to its NFC form (distinct zip entries)
         "assets/e\u0301.txt", "assets/\u00e9.txt", "\u2126.bin", "\u03a9.bin", "\u1112\u1161\u11ab.txt", "\ud55c.txt"]
NBASE = 13                      # the first 13 names: sub-product A; the 6 normalisation names + two plain ones: sub-product B
UNI = [13, 14, 15, 16, 17, 18, 0, 11]
CATEGORY = {"classes.dex": "plain", "classes2.dex": "numbered", "classes02.dex": "numbered-leading-zero",
            "classes10.dex": "numbered-two-digits", "classes2xdex": "lookalike-dot", "classes.dexx": "lookalike-suffix",
            "Classes.dex": "lookalike-case", "xclasses.dex": "lookalike-prefix", "lib/classes.dex": "nested",
            "assets/ünï/文件.txt": "non-ascii", "": "empty-name", "a/b/c": "other",
            "classes.dex\n": "lookalike-trailing-newline",
            "assets/e\u0301.txt": "nfd-accent", "assets/\u00e9.txt": "nfc-accent", "\u2126.bin": "ohm-sign",
            "\u03a9.bin": "greek-omega", "\u1112\u1161\u11ab.txt": "hangul-jamo", "\ud55c.txt": "hangul-syllable"}
METHODS = ["stored", "deflated", "mixed"]
CONTENTS = ["empty", "1", "70k", "mixed"]
EXTRA_ABSENT = ["nope", "a/b", "a/b/c/", "classes", "CLASSES.DEX", "/classes.dex"]
NSH = 64


def is_root_dex(n):
    """Independent of any regexp: 'classes' + ASCII digits* + '.dex', no directory part."""
    return n.startswith("classes") and n.endswith(".dex") and len(n) >= 11 and all(c in "0123456789" for c in n[7:-4])


_big = {}


def content(idx, cls):
    if cls == "mixed":
        cls = ("empty", "1", "70k")[idx % 3]
    if cls == "empty":
        return b""
    if cls == "1":
        return bytes([0x41 + idx])
    if idx not in _big:
        _big[idx] = bytes(((i * (2 * idx + 3)) + (i >> 8) + idx) & 0xFF for i in range(70000))
    return _big[idx]


def method(pos, m):
    if m == "mixed":
        return ("stored", "deflated")[pos % 2]
    return m


def size_class(b):
    return {0: "empty", 1: "1"}.get(len(b), "70k")


def subsets(kmax=4):
    """A: all subsets of size <= kmax of the first 13 names; B: all subsets of size 1..4 of the 6 normalisation-sensitive names
    + classes.dex + a/b/c that hold at least one normalisation-sensitive name; finally the full 19-name set."""
    yield ()
    for k in range(1, kmax + 1):
        for c in itertools.combinations(range(NBASE), k):
            yield c
    for k in range(1, 5):
        for c in itertools.combinations(UNI, k):
            if any(i >= NBASE for i in c):
                yield c
    yield tuple(range(len(NAMES)))


def order_cases():
    """C: ENTRY ORDER x CENTRAL-DIRECTORY ORDER.  Every subset of size 2 and 3 of the first 13 names, every permutation of the
    local-entry order, central directory in the same and in the reversed order (method / content 'mixed')."""
    for k in (2, 3):
        for c in itertools.combinations(range(NBASE), k):
            for perm in itertools.permutations(c):
                if perm == c:
                    yield (perm, "mixed", "mixed", "cd-reversed")         # sorted order + same CD order is part A
                else:
                    yield (perm, "mixed", "mixed", "cd-same")
                    yield (perm, "mixed", "mixed", "cd-reversed")


SPECIALS = ["name-65535-bytes", "comment-65535-bytes", "1000-entries", "name-65535+comment-65535"]


def cases(ctx):
    for sub in subsets(5 if ctx.thorough else 4):
        for m in METHODS:
            for c in CONTENTS:
                yield (sub, m, c)
    yield from order_cases()
    for sp in SPECIALS:                   # D: one representative at the maximum of the name-length / comment-length fields, many entries
        for m in ("stored", "deflated"):
            yield ((), m, "1", sp)


def build(case):
    """-> (entries [(name, data, method)], zip bytes)"""
    from gen import apkgen
    sub, m, c = case[:3]
    extra = case[3] if len(case) > 3 else None
    entries = [(NAMES[i], content(i, c), method(pos, m)) for pos, i in enumerate(sub)]
    if extra in (None, "cd-same"):
        return entries, apkgen.make_zip(entries)
    if extra == "cd-reversed":
        return entries, apkgen.make_zip(entries, cd_order=list(range(len(entries)))[::-1])
    comment = b""
    if "name-65535" in extra:
        entries = [("classes.dex", b"D", m), ("n/" + "x" * 65533, b"L", m), ("classes2.dex", b"E", m)]
    if "comment-65535" in extra:
        comment = b"c" * 65535
        entries = entries or [("classes.dex", b"D", m), ("a/b/c", b"A", m)]
    if extra == "1000-entries":
        entries = [("e/%04d" % i, bytes([i & 0xFF]) * (i % 7), m) for i in range(999)] + [("classes.dex", b"D", m)]
    return entries, apkgen.make_zip(entries, comment=comment)


_decoy = []


def decoy():
    """DECOY HISTORY: before every judged archive a fixed, different archive with the SAME entry names (all 19) but other contents
    goes through the same API calls in this process (results ignored), so state keyed by entry name that survives from one APK
    object to the next is part of every judged case - also in replay()."""
    from androguard.core import apk as A
    from gen import apkgen
    if not _decoy:
        _decoy.append(apkgen.make_zip([(n, b"DECOY:" + n.encode("utf-8") * 3, "deflated") for n in NAMES]))
    try:
        a = A.APK(_decoy[0], raw=True, skip_analysis=True)
        for n in a.get_files():
            a.get_file(n)
        list(a.get_dex_names()), list(a.get_all_dex()), a.is_multidex(), a.get_files_crc32(), a.get_dex()
    except Exception:     # noqa
        pass


def judge(case, full_analysis=False):
    """-> list of (key, msg)"""
    from androguard.core import apk as A
    decoy()
    entries, raw = build(case)
    out = []
    tag = "%s" % (case,)
    if len(case) > 3 and case[3] in SPECIALS:
        tag = "special %s/%s" % (case[3], case[1])
    try:
        a = A.APK(raw, raw=True, skip_analysis=not full_analysis)
    except Exception as e:     # noqa
        return [("open:exception:%s" % type(e).__name__, "%s: APK() raised %s: %s" % (tag, type(e).__name__, e))]
    names = [n for n, _, _ in entries]
    # 1. file list
    try:
        got = list(a.get_files())
        if sorted(got) != sorted(names):
            odd = sorted(set(got) ^ set(names))
            out.append(("get_files:" + "+".join(sorted({CATEGORY[n] for n in odd if n in names}) or ["extra-name"]),
                        "%s: get_files() %r != entries %r" % (tag, got, names)))
    except Exception as e:     # noqa
        out.append(("get_files:exception:%s" % type(e).__name__, "%s: get_files() raised %s" % (tag, e)))
    # 1b. every LISTED name must be readable and give the content of the entry stored under that name
    try:
        listed = list(a.get_files())
    except Exception:     # noqa
        listed = []
    stored = {n: d for n, d, _ in entries}
    for g in listed:
        if g in stored:
            continue
        close = [n for n in names if unicodedata.normalize("NFC", n) == unicodedata.normalize("NFC", g)]
        try:
            a.get_file(g)
            r = "returned data"
        except Exception as e:     # noqa
            r = "raised %s" % type(e).__name__
        out.append(("listed-name-not-stored:" + "+".join(sorted(CATEGORY[n] for n in close) or ["other"]),
                    "%s: get_files() lists %r which is not an entry (entries %r); get_file of it %s" % (tag, g, names, r)))
    # 1c. alternative entry points must tell the same story: get_files_crc32 / get_files_types / files / get_files_information
    #     (names, CRC-32 of the stored content; the guessed type strings are not judged), get_dex (classes.dex or b""), get_raw
    try:
        crc = dict(a.get_files_crc32())
        want = {n: zlib.crc32(d) & 0xFFFFFFFF for n, d, _ in entries}
        if crc != want:
            odd = sorted(n for n in set(crc) | set(want) if crc.get(n) != want.get(n))
            out.append(("get_files_crc32:" + "+".join(sorted({CATEGORY.get(n, "other") for n in odd if n in want}) or ["extra-name"]),
                        "%s: get_files_crc32() differs from zlib.crc32 of the stored contents for %r" % (tag, odd[:4])))
        for fn in ("get_files_types", "files"):
            t = getattr(a, fn)
            t = t() if callable(t) else t
            if sorted(t) != sorted(names):
                odd = sorted(set(t) ^ set(names))
                out.append(("%s:%s" % (fn, "+".join(sorted({CATEGORY.get(n, "other") for n in odd if n in names}) or ["extra-name"])),
                            "%s: %s keys %r != entries" % (tag, fn, sorted(t)[:6])))
        info = list(a.get_files_information())
        if sorted((n, c) for n, _, c in info) != sorted(want.items()):
            out.append(("get_files_information:" + ("count" if len(info) != len(want) else "content"),
                        "%s: get_files_information() (name, crc) pairs differ from the stored entries" % tag))
        gd = bytes(a.get_dex())
        if gd != dict((n, d) for n, d, _ in entries).get("classes.dex", b""):
            out.append(("get_dex:" + ("present" if "classes.dex" in names else "absent"),
                        "%s: get_dex() returned %d bytes, classes.dex is %s" % (tag, len(gd), "stored" if "classes.dex" in names else "absent")))
        if bytes(a.get_raw()) != raw:
            out.append(("get_raw", "%s: get_raw() is not the archive given to APK()" % tag))
    except Exception as e:     # noqa
        out.append(("alt-entry-point:exception:%s" % type(e).__name__, "%s: %s: %s" % (tag, type(e).__name__, e)))
    # 2. contents
    for n, data, meth in entries:
        try:
            g = a.get_file(n)
            if bytes(g) != data:
                out.append(("get_file:%s:%s:%s" % (meth, size_class(data), CATEGORY[n]),
                            "%s: get_file(%r) returned %d bytes (%r...) instead of the %d bytes written"
                            % (tag, n, len(g), bytes(g[:8]), len(data))))
        except Exception as e:     # noqa
            out.append(("get_file:%s:%s:%s" % (meth, size_class(data), CATEGORY[n]),
                        "%s: get_file(%r) raised %s: %s" % (tag, n, type(e).__name__, e)))
    # 3. absent names
    for n in [x for x in NAMES if x not in names] + [x for x in EXTRA_ABSENT if x not in names]:
        try:
            g = a.get_file(n)
            out.append(("missing:" + CATEGORY.get(n, "probe:" + n), "%s: get_file(%r) of an absent name returned %d bytes"
                        % (tag, n, len(g))))
        except A.FileNotPresent:
            pass
        except Exception as e:     # noqa
            out.append(("missing:" + CATEGORY.get(n, "probe:" + n),
                        "%s: get_file(%r) of an absent name raised %s instead of FileNotPresent" % (tag, n, type(e).__name__)))
    # 4. DEX listing: one violation per misclassified NAME, so the key names the input feature responsible
    exp = sorted(n for n in names if is_root_dex(n))
    odd = []
    try:
        got = sorted(a.get_dex_names())
        if got != exp:
            odd = sorted(set(got) ^ set(exp))
            for n in odd or [None]:
                out.append(("dex-listing:" + CATEGORY.get(n, "multiplicity"),
                            "%s: get_dex_names() %r != root-level classes<digits>.dex entries %r" % (tag, got, exp)))
    except Exception as e:     # noqa
        out.append(("dex-listing:exception:%s" % type(e).__name__, "%s: get_dex_names() raised %s" % (tag, e)))
    try:
        got = sorted(bytes(x) for x in a.get_all_dex())
        want = sorted(d for n, d, _ in entries if is_root_dex(n))
        if got != want:
            for n in odd or [None]:
                out.append(("get_all_dex:" + (CATEGORY[n] if n is not None else "content"),
                            "%s: get_all_dex() gave %d buffers (sizes %r), expected the contents of %r"
                            % (tag, len(got), [len(x) for x in got], exp)))
    except Exception as e:     # noqa
        out.append(("get_all_dex:exception:%s" % type(e).__name__, "%s: get_all_dex() raised %s" % (tag, e)))
    try:
        got = a.is_multidex()
        if bool(got) != (len(exp) > 1):
            for c in multidex_culprits(names) or ["count"]:
                out.append(("is_multidex:" + c, "%s: is_multidex() = %r with root DEX entries %r" % (tag, got, exp)))
    except Exception as e:     # noqa
        out.append(("is_multidex:exception:%s" % type(e).__name__, "%s: is_multidex() raised %s" % (tag, e)))
    return out


def multidex_culprits(names):
    """Input-side classification of a wrong is_multidex(): which single names are miscounted.  Each name n is paired with
    the unambiguous DEX 'classes3.dex' in a two-entry archive; n is a culprit iff is_multidex() != is_root_dex(n) there."""
    from androguard.core import apk as A
    from gen import apkgen
    bad = []
    for n in names:
        try:
            a = A.APK(apkgen.make_zip([(n, b"x", "stored"), ("classes3.dex", b"y", "stored")]), raw=True, skip_analysis=True)
            if bool(a.is_multidex()) != is_root_dex(n):
                bad.append(CATEGORY[n])
        except Exception:     # noqa
            bad.append(CATEGORY[n])
    return sorted(set(bad))


def shards(ctx):
    return list(range(NSH))


def space(ctx):
    n = sum(1 for _ in cases(ctx))
    return {"names": NAMES, "subset_sizes": "A: 0..%d of names[0:13]; B: 1..4 of names[13:19]+[classes.dex, a/b/c] with >= 1 of "
                                                  "names[13:19]; + full set" % (5 if ctx.thorough else 4), "methods": METHODS, "contents": CONTENTS,
            "absent_probes": "alphabet names not in the archive + " + repr(EXTRA_ABSENT), "archives": n,
            "C_order": "all subsets of size 2,3 of names[0:13] x all permutations of the local-entry order x central directory in the "
                       "same / reversed order (method, content = mixed): %d archives" % sum(1 for _ in order_cases()),
            "D_maxima": SPECIALS, "decoy_history": "an archive holding all 19 names with other contents is opened and read first, "
                                                   "inside judge()",
            "alternative_entry_points": ["get_files_crc32", "get_files_types (keys)", "files (keys)", "get_files_information (name, crc)",
                                         "get_dex", "get_raw"],
            "full_analysis_subset": "every 16th archive is additionally opened without skip_analysis"}


def run_shard(ctx, shard):
    acc = Acc()
    for idx, case in enumerate(cases(ctx)):
        if idx % NSH != shard:
            continue
        sub, m, c = case[:3]
        extra = case[3] if len(case) > 3 else None
        names = [NAMES[i] for i in sub]
        acc.count("part_" + ("A+B" if extra is None else ("D-maxima" if extra in SPECIALS else "C-order")))
        ndex = sum(1 for n in names if is_root_dex(n))
        look = sorted(CATEGORY[n] for n in names if CATEGORY[n].startswith(("lookalike", "nested")))
        acc.case(nontrivial=None, outcome=(ndex, tuple(look), m, c))
        if ndex or look:
            acc.nt_disjoint += 1
        acc.count("entries_read", len(sub))
        acc.count("absent_probes", len(NAMES) - len(sub) + len(EXTRA_ABSENT))
        acc.count("archives_with_%d_dex" % min(ndex, 3))
        if extra is None:
            acc.count("archives:%s:%s" % (m, c))
        res = judge(case)
        for key, msg in res:
            acc.violation(key, {"sub": list(sub), "method": m, "content": c, "full": False, "extra": extra}, msg)
        if (idx // NSH) % 16 == 0:
            acc.count("opened_with_full_analysis")
            seen = {k for k, _ in res}
            for key, msg in judge(case, full_analysis=True):
                if key not in seen:      # only what the manifest-analysis constructor path adds
                    acc.violation("full-analysis:" + key, {"sub": list(sub), "method": m, "content": c, "full": True, "extra": extra}, msg)
        if shard == 0 and len(acc.samples) < 2 and len(sub) == 3:
            acc.sample({"names": names, "method": m, "content": c})
    return acc


def replay(ctx, w):
    case = (tuple(w["sub"]), w["method"], w["content"]) + ((w["extra"],) if w.get("extra") else ())
    res = judge(case, full_analysis=bool(w.get("full")))
    return "\n".join("%s: %s" % r for r in res) if res else None


def finalize(ctx, acc):
    if len(acc.outcomes) < 100:
        acc.harness_error("vacuous: only %d distinct (dex count, look-alikes, method, content) classes" % len(acc.outcomes))
    nsub = sum(1 for _ in subsets(5 if ctx.thorough else 4))
    for m in METHODS:
        for c in CONTENTS:
            if acc.extra.get("archives:%s:%s" % (m, c)) != nsub:
                acc.harness_error("method x content combination %s/%s: %r archives judged, %d name sets in the space"
                                  % (m, c, acc.extra.get("archives:%s:%s" % (m, c)), nsub))
    norder = sum(1 for _ in order_cases())
    if acc.extra.get("part_C-order") != norder or acc.extra.get("part_D-maxima") != 2 * len(SPECIALS):
        acc.harness_error("order / maxima parts: %r / %r judged, %d / %d in the space" % (
            acc.extra.get("part_C-order"), acc.extra.get("part_D-maxima"), norder, 2 * len(SPECIALS)))
    for k in ("archives_with_0_dex", "archives_with_1_dex", "archives_with_2_dex", "archives_with_3_dex"):
        if not acc.extra.get(k):
            acc.harness_error("vacuous: no case in class %s" % k)
