"""C12  Every instruction inside a try range carries that range's handlers   (engine E2: bounded structure enumeration).

Space: skeletons over {const/4, div-int, return-void, throw, goto->t, if-eqz->t, packed-switch->{t,u},
sparse-switch->{t,u}} (targets over all slots) x try tables: 0..2 disjoint, sorted try ranges over ALL slot intervals
[i,j] (so ranges start and end at, before and after branch targets, inside loops, adjacent to each other), handler
address over ALL slots, typed / catch-all / typed+catch-all, two tries optionally sharing one encoded handler.
  quick:    <=2 slots x all tables;  3 slots over {div-int, return, goto, if, packed-switch} x all single tries;
            3 slots over {div-int, goto, if} x all tables
  thorough: additionally 3 slots full alphabet x all single tries; 3 slots {div-int,return,goto,if,packed} x all tables;
            4 slots {div-int, goto, if} x all single tries
  both:     tables of THREE disjoint try ranges (handler slots over all slots, typed/typed/typed and typed/catch-all/typed,
            identical handler specs with one shared encoded handler and with separate ones) over 3 slots {div-int, if}
            and 4 slots {div-int}; thorough: 3 slots {div-int, goto, if} with four kind patterns
No-op history (plans again-*): the SAME parsed code analysed again without any edit -- a stand-alone MethodAnalysis(vm, em)
and a second Analysis(vm) over the same DEX object -- judged exactly like the first analysis (keys end in
":second-analysis"); every shipped method is likewise analysed twice.
Plus every method of the shipped DEX files (quick: classes.dex).
Oracle (ref/cfg.judge_c12): a block reports try range R (get_exception_analysis(): R's start, R's handler addresses,
each resolved to the block that BEGINS at the handler address) iff some instruction of the block lies in R; a block
that intersects no range reports nothing.  Try ranges of a well-formed code item are disjoint and try starts are
leaders, so a block meets at most one range.
Keys name the relation between range and block on the input side: try-covers-block, try-within-block (range starts
at the block start and ends inside it), try-ends-mid-block (range started in an earlier block and ends inside this
one), try-starts-mid-block, foreign-try-reported, handler-block-wrong.
"""
from checks import cfgcommon as CC
from ref import cfg as R

PROPERTY = "C12"
LEVEL = "exploration"
RULE = ("skeletons of <=3 (thorough <=4) slots x all tables of 0..2 disjoint try ranges over slot intervals x handler "
        "slots x typed/catch-all/both (see space.plans for the alphabet of each plan); all methods of the shipped DEX "
        "files.  Non-trivial = method with a try range or more than one block; distinct by construction (enumeration "
        "index) / by (file, class, method)")
ASSUMPTIONS = ["trusted: gen/dalvik, gen/dexgen, gen/dexread, ref/cfg.py",
               "the reported range is identified by its start address; its end may be given as last byte or exclusive end",
               "handler exception TYPE names are not judged here (only addresses and handler blocks)",
               "try tables are well-formed (sorted, disjoint), as the DEX format requires"]
MANIFEST = {
    "engine": "E2-structures",
    "technique": "exhaustive enumeration of try-range placements over small methods against an interval-overlap reference",
    "text": "Every placement of up to two try ranges (all slot intervals, all handler addresses, typed and catch-all) over "
            "every small skeleton with branches and switches is assembled by an independent writer and analysed by the real "
            "code; each block's exception information is compared with the ranges that cover one of its instructions.  "
            "Shipped DEX files are swept completely.  Complete for the stated bound.",
    "note": "Trusted: gen/dalvik, gen/dexgen, gen/dexread, ref/cfg.py.  Handler type names are C08's subject.",
}
_ME = "checks.c12"
ALT_TOPICS = ("exc",)


def plans(ctx):
    p = [{"id": "try-n0", "n": 0, "kinds": "PTRXGIKS", "tries": (2, True)},
         {"id": "try-n1", "n": 1, "kinds": "PTRXGIKS", "tries": (2, True)},
         {"id": "try-n2", "n": 2, "kinds": "PTRXGIKS", "tries": (2, True)}]
    # three try ranges: determineException groups try items by encoded handler, so with ranges 1 and 3 sharing a handler
    # the analysis sees them in the order 1, 3, 2 -- every sharing pattern (1,2) (2,3) (1,3) all none occurs
    p.append({"id": "try3-n3-TI", "n": 3, "kinds": "TI", "tries3": ("ttt", "tat")})
    p.append({"id": "try3-n4-T", "n": 4, "kinds": "T", "tries3": ("ttt", "tat")})
    # container order: every other order of the encoded_catch_handler_list entries (2 handlers: 1, 3 handlers: 5 more)
    p.append({"id": "hperm-try-n1", "n": 1, "kinds": "PTRXGIKS", "tries": (2, False), "hperms": 2})
    p.append({"id": "hperm-try-n2", "n": 2, "kinds": "TGIK", "tries": (2, False), "hperms": 2})
    p.append({"id": "hperm-try3-n4-T", "n": 4, "kinds": "T", "tries3": ("ttt", "tat"), "hperms": 6})
    p += CC.combo_plans(ctx)
    # no-op history: the same parsed code analysed a second / third time (keys end in :second-analysis)
    p.append({"id": "again-try-n1", "n": 1, "kinds": "PTRXGIKS", "tries": (2, False), "history": ("reanalyse",)})
    p.append({"id": "again-try-n2", "n": 2, "kinds": "TGI", "tries": (2, False), "history": ("reanalyse",)})
    if ctx.thorough:
        p.append({"id": "try3-n3-TGI", "n": 3, "kinds": "TGI", "tries3": ("ttt", "tat", "aaa", "ata")})
        p.append({"id": "try1-n3", "n": 3, "kinds": "PTRXGIKS", "tries": (1, False)})
        p.append({"id": "try2-n3-TRGIK", "n": 3, "kinds": "TRGIK", "tries": (2, True)})
        p.append({"id": "try1-n4-TGI", "n": 4, "kinds": "TGI", "tries": (1, False)})
    else:
        p.append({"id": "try1-n3-TRGIK", "n": 3, "kinds": "TRGIK", "tries": (1, False)})
        p.append({"id": "try2-n3-TGI", "n": 3, "kinds": "TGI", "tries": (2, False)})
    return p


def space(ctx):
    return CC.space_common(ctx, plans(ctx))


def shards(ctx):
    return CC.shards_common(ctx, plans(ctx))


def judge(acc, rm, obs, layout, ma=None, gen=True):
    v, seen = R.judge_c12(rm, obs)
    for r in seen:
        acc.count("blocks_" + r)
    acc.count("blocks_checked", len(obs["blocks"]))
    return v


def run_shard(ctx, shard):
    return CC.run_shard_common(__import__(_ME, fromlist=["x"]), ctx, shard)


def replay(ctx, w):
    return CC.replay_common(__import__(_ME, fromlist=["x"]), ctx, w)


def finalize(ctx, acc):
    for k in ["methods_with_try", "methods_with_back-edge", "methods_with_switch", "blocks_try-covers-block",
              "blocks_try-within-block", "blocks_try-ends-mid-block", "shipped_methods"]:
        if not acc.extra.get(k):
            acc.harness_error("vacuity: counter %s is zero" % k)
    if acc.extra.get("blocks_try-starts-mid-block"):
        acc.note("%d blocks contain a try start that is not the block start (C10 territory: try starts must be leaders)"
                 % acc.extra["blocks_try-starts-mid-block"])
    if len(acc.outcomes) < 50:
        acc.harness_error("vacuity: only %d distinct block/exception shapes observed" % len(acc.outcomes))
