"""C04  Encoded constant values keep their declared width and signedness  (engine E2).

Space: one-class DEX files; every legal (value_type, value_arg) pair:
  byte w1; short w1-2; char w1-2; int w1-4; long w1-8 -- for each width w the boundary values
  {0, 1, -1, MIN_w, MAX_w, MIN_w+1, MAX_w-1} written at their minimal width AND at every longer legal width
  (sign-/zero-extended non-minimal encodings); boolean 0/1; null; string/type/field/method/enum references with
  index < 256 (width 1 and non-minimal width 2) and index >= 256 (width 2: the pools are padded); arrays and
  annotations nested to depth 2 (array-in-annotation, annotation-in-array, array-in-array).
  Two classes sharing ONE encoded_array_item (byte-identical static values, field lists of 1..3 fields, array of 1..min values,
  both class orders).
  Each value is observed (a) as a static-field initial value (static_values array; also with the array shorter than
  the field list), (b) as an annotation element value (class annotation, one element per value), (c) in the field
  initialiser the decompiler prints (numeric / boolean / null / identifier-like strings only).
Oracle: the generating model: signed for byte/short/int/long, unsigned for char, references resolved to the named item.
float/double are not in the statement and are excluded.
"""
import re

from mc.core import Acc, h8

PROPERTY = "C04"
LEVEL = "exploration"
RULE = ("every legal (value_type,value_arg) x boundary value (minimal and every longer width) as static value, as annotation "
        "element and in decompiled source; reference kinds with 1- and 2-byte indices; nesting depth 2; non-trivial = negative "
        "value, non-minimal width, 2-byte index, or nested value; distinct by (position, type, width, value)")
ASSUMPTIONS = ["gen/dexgen encoded_value writer follows the DEX spec (round trip through gen/dexread incl. shipped annotation-heavy files)",
               "source initialisers are compared by denoted value (decimal/hex ints, case-insensitive booleans, None==null)"]
MANIFEST = {
    "engine": "E2-structures",
    "technique": "bounded exhaustive enumeration of encoded_value (type,width,value) combinations in generated DEX files",
    "text": "All value types with every legal width and sign-boundary values are placed as static initial values and as annotation "
            "elements in generated DEX files; the API must report the model value (sign/zero extension, resolved references, "
            "nested arrays/annotations) and the decompiler's field initialiser must denote the same value.",
    "note": "Trusted: gen/dexgen encoded_value writer (conformance-checked).",
}

INTK = {"byte": 1, "short": 2, "int": 4, "long": 8}
FTYPE = {"byte": "B", "short": "S", "char": "C", "int": "I", "long": "J", "boolean": "Z", "string": "Ljava/lang/String;",
         "type": "Ljava/lang/Class;", "null": "Ljava/lang/Object;", "field": "Ljava/lang/Object;", "method": "Ljava/lang/Object;",
         "enum": "Lp/En;", "array": "[I", "annotation": "Ljava/lang/Object;"}
NPAD = 300


def scalar_cases():
    """-> list of (kind, value, width)"""
    out = []
    for kind, maxw in INTK.items():
        for w in range(1, maxw + 1):
            lo, hi = -(1 << (8 * w - 1)), (1 << (8 * w - 1)) - 1
            vals = {lo, hi, lo + 1, hi - 1}
            if w == 1:
                vals |= {0, 1, -1}
            for v in sorted(vals):
                for ww in range(w, maxw + 1):
                    out.append((kind, v, ww))
        for ww in range(2, maxw + 1):
            for v in (0, 1, -1):
                out.append((kind, v, ww))
    for v, ws in ((0, (1, 2)), (1, (1, 2)), (0x7f, (1, 2)), (0x80, (1, 2)), (0xff, (1, 2)), (0x100, (2,)), (0x7fff, (2,)),
                  (0x8000, (2,)), (0xffff, (2,))):
        for w in ws:
            out.append(("char", v, w))
    out += [("boolean", True, None), ("boolean", False, None), ("null", None, None)]
    return out


def ref_cases():
    F_LO, F_HI = ("La/Low;", "f", "I"), ("Lz/High;", "f", "I")
    M_LO, M_HI = ("La/Low;", "m", "V", ("I", "J")), ("Lz/High;", "m", "V", ())
    # 'AStr' / 'La/Low;' sort before the 300 padding entries (index < 256), 'zStr' / 'Lz/High;' / '[I' after them (index >= 256)
    # MID: entries that sit in the middle of the padding, i.e. whose pool index is in 128..255 and is written in ONE byte with the
    # top bit set (an index is unsigned: a reader that sign-extends it lands on another entry); checked by mid_indices_ok()
    F_MID, M_MID = ("Lm/T000;", "g150", "I"), ("Lm/T000;", "h150", "V", ())
    mid = [("string", "Lm/T150;", 1), ("type", "Lm/T150;", 1), ("field", F_MID, 1), ("enum", F_MID, 1), ("method", M_MID, 1),
           ("string", "Lm/T150;", 2), ("type", "Lm/T150;", 3), ("field", F_MID, 2), ("method", M_MID, 4)]
    return mid + [("string", "AStr", 1), ("string", "AStr", 2), ("string", "zStr", 2), ("string", "", 1),
            ("type", "La/Low;", 1), ("type", "La/Low;", 2), ("type", "Lz/High;", 2), ("type", "[I", 2),
            ("field", F_LO, 1), ("field", F_LO, 2), ("field", F_HI, 2),
            ("enum", F_LO, 1), ("enum", F_HI, 2),
            ("method", M_LO, 1), ("method", M_LO, 2), ("method", M_HI, 2)]


def _ev(case):
    from gen import dexgen as G
    kind, v, w = case
    if kind == "array":
        return G.EV("array", [_ev(x) for x in v])
    if kind == "annotation":
        return G.EV("annotation", G.Annotation(v[0], [(n, _ev(x)) for n, x in v[1]]))
    return G.EV(kind, v, w)


def nested_cases():
    i_neg, s_str, b_neg = ("int", -1, 1), ("string", "AStr", 1), ("byte", -2, 1)
    l_min = ("long", -(1 << 63), 8)
    return [("array", [], None), ("array", [i_neg], None), ("array", [i_neg, s_str, l_min], None),
            ("array", [("array", [b_neg], None), ("short", -129, 2)], None),
            ("annotation", ("La/Low;", [("k", i_neg)]), None),
            ("annotation", ("Lz/High;", [("a", ("array", [b_neg, ("char", 0xffff, 2)], None)), ("zz", ("boolean", True, None))]), None),
            ("array", [("annotation", ("La/Low;", [("k", ("short", -32768, 2))]), None), ("null", None, None)], None)]


def all_cases():
    return scalar_cases() + ref_cases() + nested_cases()


def expect(case):
    """model value in a canonical python form comparable with ag_val()"""
    kind, v, w = case
    if kind == "array":
        return ["array"] + [expect(x) for x in v]
    if kind == "annotation":
        return ["annotation", v[0], sorted([n, expect(x)] for n, x in v[1])]
    if kind in ("field", "enum"):
        return ["field", v[0], v[1], v[2]]
    if kind == "method":
        return ["method", v[0], v[1], "(" + " ".join(v[3]) + ")", v[2]]
    return v


def ag_val(cm, ev):
    """androguard EncodedValue -> canonical python form"""
    t = ev.get_value_type()
    v = ev.get_value()
    if t == 0x1c:
        return ["array"] + [ag_val(cm, x) for x in v.get_values()]
    if t == 0x1d:
        return ["annotation", cm.get_type(v.get_type_idx()),
                sorted([cm.get_raw_string(e.get_name_idx()), ag_val(cm, e.get_value())] for e in v.get_elements())]
    if t in (0x19, 0x1b):
        return ["field", v[0], v[2], v[1]]
    if t == 0x1a:
        return ["method", v[0], v[1], v[2][0], v[2][1]]
    return v


def klass(case, api):
    kind, v, w = case
    if kind in INTK or kind == "char":
        minw = 1
        while not (-(1 << (8 * minw - 1)) <= v < (1 << (8 * minw - 1))) if kind != "char" else v >= (1 << (8 * minw)):
            minw += 1
        return "%s:%s:%s%s" % (api, kind, "negative" if v < 0 else "nonneg", ":nonminimal-width" if w > minw else "")
    if kind in ("string", "type", "field", "method", "enum"):
        return "%s:%s:index-width%d" % (api, kind, w)
    return "%s:%s" % (api, kind)


def is_nontrivial(case):
    kind, v, w = case
    if kind in INTK:
        return v < 0 or w > 1
    return kind not in ("boolean", "null") and not (kind == "char" and w == 1)


def build(cases, short_static=0):
    """one DEX: class Lp/V; with one static field per case (+ class annotation with one element per case)"""
    from gen import dexgen as G
    fields = [G.Field("f%03d" % i, FTYPE[c[0]], G.ACC_STATIC | G.ACC_PUBLIC) for i, c in enumerate(cases)]
    sv = [_ev(c) for c in cases]
    if short_static:
        sv = sv[:len(sv) - short_static]
    ann = G.Annotation("Lp/Ann;", [("e%03d" % i, _ev(c)) for i, c in enumerate(cases)])
    cls = G.Class("Lp/V;", sfields=fields, static_values=sv, annotations=[ann])
    pad_s = ["b%03d" % i for i in range(NPAD)]                     # sort between 'aStr' and 'zStr'
    pad_t = ["Lm/T%03d;" % i for i in range(NPAD)]                 # between La/Low; and Lz/High;
    pad_f = [("Lm/T000;", "g%03d" % i, "I") for i in range(NPAD)]
    pad_m = [("Lm/T000;", "h%03d" % i, "V", ()) for i in range(NPAD)]
    return G.Dex([cls], extra_strings=pad_s, extra_types=pad_t, extra_fields=pad_f, extra_methods=pad_m)


_SRC_RE = re.compile(r"^\s*(?:public |static |private |final )*\s*(\S+) (f\d\d\d)(?: = (.*))?;\s*$")


def parse_src_value(txt):
    t = txt.strip()
    if t.lower() in ("true", "false"):
        return t.lower() == "true"
    if t in ("None", "null"):
        return None
    if t.startswith('"') and t.endswith('"'):
        return t[1:-1]
    try:
        return int(t, 0)
    except ValueError:
        return ("unparsed", t)


def judge(cases, short_static=0, with_source=True):
    from gen import dexgen as G
    from androguard.core import dex
    out = []
    raw = G.build(build(cases, short_static))
    try:
        vm = dex.DEX(raw)
        c = vm.get_classes()[0]
        fs = {f.get_name(): f for f in c.get_fields()}
        nstatic = len(cases) - short_static
        for i, case in enumerate(cases):
            iv = fs["f%03d" % i].get_init_value()
            if i >= nstatic:
                if iv is not None:
                    out.append((case, "static:trailing-default", "field f%03d beyond the static_values array has init value %r" % (i, iv.get_value())))
                continue
            if iv is None:
                out.append((case, klass(case, "static") + ":missing", "field f%03d (%r) has no init value" % (i, case)))
                continue
            got, want = ag_val(vm.CM, iv), expect(case)
            if got != want or type(got) != type(want):
                out.append((case, klass(case, "static"), "static value of f%03d %r: got %r, encoded %r" % (i, case, got, want)))
        # annotation elements
        ad = c.annotations_directory_item
        st = ad.get_annotation_set_item() if hasattr(ad, "get_annotation_set_item") and False else vm.CM.get_annotation_set_item(ad.get_class_annotations_off())
        ai = vm.CM.get_annotation_item(st.get_annotation_off_item()[0].get_annotation_off())
        els = {vm.CM.get_raw_string(e.get_name_idx()): e.get_value() for e in ai.get_annotation().get_elements()}
        for i, case in enumerate(cases):
            ev = els.get("e%03d" % i)
            if ev is None:
                out.append((case, klass(case, "annotation") + ":missing", "annotation element e%03d missing" % i))
                continue
            got, want = ag_val(vm.CM, ev), expect(case)
            if got != want or type(got) != type(want):
                out.append((case, klass(case, "annotation"), "annotation element e%03d %r: got %r, encoded %r" % (i, case, got, want)))
        if with_source:
            from androguard.core.analysis.analysis import Analysis
            from androguard.decompiler.decompile import DvClass
            dx = Analysis(vm)
            src = DvClass(c, dx)
            src.process()
            text = src.get_source()
            seen = {}
            for line in text.splitlines():
                m = _SRC_RE.match(line)
                if m:
                    seen[m.group(2)] = m.group(3)
            for i, case in enumerate(cases[:nstatic]):
                kind, v, w = case
                if kind not in INTK and kind not in ("char", "boolean", "null", "string"):
                    continue
                name = "f%03d" % i
                if name not in seen:
                    out.append((case, klass(case, "source") + ":field-missing", "field %s not found in decompiled source" % name))
                    continue
                txt = seen[name]
                if txt is None:
                    # the statement: 'the decompiler prints the same value in the field initialiser' - a field that HAS an encoded
                    # value must be printed WITH an initialiser (also when the value is the type's default: an explicit
                    # 'false' / 0 is data of the file)
                    out.append((case, klass(case, "source") + ":no-initialiser", "field %s (%r) printed without initialiser" % (name, case)))
                    continue
                got = parse_src_value(txt)
                want = v
                if kind == "string" and v == "":
                    want = ""
                if got != want or (isinstance(want, bool) != isinstance(got, bool)):
                    out.append((case, klass(case, "source"), "decompiled initialiser of %s %r: '%s' denotes %r, encoded %r" % (name, case, txt, got, want)))
        # ---- history: the values must still be the encoded ones after an unrelated mutation of the parsed object
        #      (renaming the class re-resolves names all over the file; none of the cases refers to the renamed class)
        vm2 = dex.DEX(raw)
        c2 = vm2.get_classes()[0]
        c2.set_name("Lp/W;")
        fs2 = {f.get_name(): f for f in c2.get_fields()}
        for i, case in enumerate(cases[:nstatic]):
            iv = fs2["f%03d" % i].get_init_value()
            got, want = (ag_val(vm2.CM, iv) if iv is not None else "<missing>"), expect(case)
            if got != want or type(got) != type(want):
                out.append((case, klass(case, "static") + ":after:class-rename",
                            "after renaming the class: static value of f%03d %r: got %r, encoded %r" % (i, case, got, want)))
        ad2 = c2.annotations_directory_item
        st2 = vm2.CM.get_annotation_set_item(ad2.get_class_annotations_off())
        ai2 = vm2.CM.get_annotation_item(st2.get_annotation_off_item()[0].get_annotation_off())
        els2 = {vm2.CM.get_raw_string(e.get_name_idx()): e.get_value() for e in ai2.get_annotation().get_elements()}
        for i, case in enumerate(cases):
            ev = els2.get("e%03d" % i)
            got, want = (ag_val(vm2.CM, ev) if ev is not None else "<missing>"), expect(case)
            if got != want or type(got) != type(want):
                out.append((case, klass(case, "annotation") + ":after:class-rename",
                            "after renaming the class: annotation element e%03d %r: got %r, encoded %r" % (i, case, got, want)))
    except Exception as e:     # noqa
        import traceback
        out.append((cases[0], "exception:%s" % type(e).__name__, traceback.format_exc()[-800:]))
    return out


BATCH = 24


def batches():
    cs = all_cases()
    return [cs[i:i + BATCH] for i in range(0, len(cs), BATCH)]


# ---- declared field type x encoded value: the value's own type decides how it is printed, not the field's declared type
FT_CASES = [(ft, kind, v) for ft in ("Ljava/lang/String;", "Ljava/lang/Object;", "Ljava/lang/CharSequence;", "[I", "Lp/En;")
            for kind, v in (("null", None), ("string", "AStr"), ("string", ""), ("string", 'q"x\\y'), ("string", "true"), ("string", "0"))
            if not (kind == "string" and ft in ("[I", "Lp/En;"))] + \
           [("Z", "boolean", False), ("Z", "boolean", True), ("I", "int", 0), ("J", "long", 0), ("C", "char", 0), ("B", "byte", 0), ("S", "short", 0)]


def judge_ftypes(order):
    """all FT_CASES as static fields of one class (order 0: as listed, 1: reversed, so that each default value is once followed
    and once preceded by non-default ones); parsed value and BOTH printers (get_source, get_source_ext) are judged"""
    from gen import dexgen as G
    from ref import javalex
    from androguard.core import dex
    from androguard.core.analysis.analysis import Analysis
    from androguard.decompiler.decompile import DvClass
    cases = FT_CASES[::-1] if order else FT_CASES
    out = []
    fields = [G.Field("f%03d" % i, ft, G.ACC_STATIC | G.ACC_PUBLIC) for i, (ft, _, _) in enumerate(cases)]
    sv = [G.EV(kind, v, None if kind in ("null", "boolean") else (1 if kind != "long" else 1)) for _, kind, v in cases]
    raw = G.build(G.Dex([G.Class("Lp/V;", sfields=fields, static_values=sv)]))

    def denote(txt, kind):
        t = txt.strip()
        if t.startswith('"'):
            try:
                return "".join(chr(u) for u in javalex.read_string_literal(t))
            except Exception as e:      # noqa
                return ("bad-literal", t, str(e))
        if t in ("null", "None"):
            return None
        if t.lower() in ("true", "false") and kind == "boolean":
            return t.lower() == "true"
        try:
            return int(t, 0)
        except ValueError:
            return ("unparsed", t)
    try:
        vm = dex.DEX(raw)
        c = vm.get_classes()[0]
        fs = {f.get_name(): f for f in c.get_fields()}
        src = DvClass(c, Analysis(vm))
        src.process()
        seen = {}
        for line in src.get_source().splitlines():
            m = _SRC_RE.match(line)
            if m:
                seen[m.group(2)] = m.group(3)
        seen_ext = {}
        for tag, toks in src.get_source_ext():
            if tag == "FIELD":
                nm = [t[1] for t in toks if t[0] == "NAME_FIELD"][0]
                val = [t[1] for t in toks if t[0] == "FIELD_VALUE"]
                seen_ext[nm] = val[0].split("=", 1)[1] if val and "=" in val[0] else None
        for i, (ft, kind, v) in enumerate(cases):
            name = "f%03d" % i
            cls = "%s-in-%s" % (kind if v not in ("", 0, False) or kind == "null" else kind + "-default", ft.strip("L;[").split("/")[-1] or ft)
            iv = fs[name].get_init_value()
            got = iv.get_value() if iv is not None else "<missing>"
            if got != v or type(got) != type(v):
                out.append(("ftype:static:" + cls, "%s %s: parsed value %r, encoded %r" % (ft, name, got, v)))
            for api, tbl in (("source", seen), ("source_ext", seen_ext)):
                if name not in tbl:
                    out.append(("ftype:%s:%s:field-missing" % (api, cls), "%s %s not in %s" % (ft, name, api)))
                elif tbl[name] is None:
                    out.append(("ftype:%s:%s:no-initialiser" % (api, cls), "%s %s = %r printed without initialiser by %s" % (ft, name, v, api)))
                else:
                    d = denote(tbl[name], kind)
                    if d != v or type(d) != type(v):
                        out.append(("ftype:%s:%s" % (api, cls), "%s %s: %s prints '%s' which denotes %r, encoded %s %r" % (ft, name, api, tbl[name].strip(), d, kind, v)))
    except Exception:     # noqa
        import traceback
        out.append(("ftype:exception", traceback.format_exc()[-800:]))
    return out


def mid_indices_ok():
    """-> None | message: the MID reference cases must really have pool indices in 128..255 (else they test nothing)"""
    from gen import dexgen as G
    cs = [c for c in all_cases() if c[0] in ("string", "type", "field", "method") and c[2] == 1 and "150" in repr(c[1])]
    _, lay = G.build(build(cs), return_layout=True)
    P = lay["pools"]
    idx = {"string": P.sidx["Lm/T150;"], "type": P.tidx["Lm/T150;"], "field": P.fidx[("Lm/T000;", "g150", "I")],
           "method": P.midx[("Lm/T000;", "h150", "V", ())]}
    bad = {k: v for k, v in idx.items() if not 128 <= v <= 255}
    return ("mid-padding reference cases do not have one-byte indices with the top bit set: %r" % bad) if bad else None


def shared_cases():
    """two classes whose static_values are byte-identical and therefore share ONE encoded_array_item (as dx/d8 emit it):
    (n1, n2, L, order): class P has n1 static int fields, class Q has n2, the shared array has L <= min(n1, n2) values"""
    out = []
    for n1 in (1, 2, 3):
        for n2 in (1, 2, 3):
            for L in range(1, min(n1, n2) + 1):
                for order in (0, 1):
                    out.append((n1, n2, L, order))
    return out


def judge_shared(case):
    from gen import dexgen as G
    from androguard.core import dex
    n1, n2, L, order = case
    vals = [-2, -3, 0x7fffffff][:L]

    def cls(name, n):
        return G.Class(name, sfields=[G.Field("f%d" % i, "I", G.ACC_STATIC | G.ACC_PUBLIC) for i in range(n)],
                       static_values=[G.EV("int", v) for v in vals])
    classes = [cls("Lp/P;", n1), cls("Lp/Q;", n2)]
    if order:
        classes.reverse()
    model = G.Dex(classes)
    model.share_equal_arrays = True
    raw, lay = G.build(model, return_layout=True)
    out = []
    n_arrays = sum(1 for k in lay["item_off"] if k[0] == G.T_ENC_ARRAY)
    if n_arrays != 1:
        return [("harness", "expected ONE shared encoded_array_item, writer produced %d" % n_arrays)]
    try:
        vm = dex.DEX(raw)
        for c, n in zip(vm.get_classes(), [len(x.sfields) for x in classes]):
            got = {}
            for f in c.get_fields():
                iv = f.get_init_value()
                got[f.get_name()] = None if iv is None else iv.get_value()
            want = {"f%d" % i: (vals[i] if i < L else None) for i in range(n)}
            if got != want:
                pos = "first" if c.get_name() == classes[0].name else "second"
                out.append(("static:shared-array:%s-class%s" % (pos, ":longer-field-list" if n > L else ""),
                            "classes %r share one static_values array of %d values; %s reports %r, encoded %r"
                            % ([(x.name, len(x.sfields)) for x in classes], L, c.get_name(), got, want)))
    except Exception as e:     # noqa
        out.append(("static:shared-array:exception:%s" % type(e).__name__, "%s: %s" % (type(e).__name__, e)))
    return out


def shards(ctx):
    n = len(batches())
    return [(i, s) for i in range(n) for s in (0, 1)] + [("shared", 0), ("ftypes", 0)]


def space(ctx):
    cs = all_cases()
    by = {}
    for c in cs:
        by[c[0]] = by.get(c[0], 0) + 1
    return {"cases": len(cs), "by_kind": by, "positions": ["static value", "annotation element", "decompiled initialiser"],
            "static_array": ["full length", "shorter than the field list (last 3 fields default)"], "index_padding": NPAD,
            "declared_type_x_value": {"cases": len(FT_CASES), "field_types": ["String", "Object", "CharSequence", "int[]", "enum type", "primitives"],
                                      "values": ["null", "strings incl. empty / quote+backslash / 'true' / '0'", "explicit default of every primitive"],
                                      "orders": 2, "printers": ["get_source", "get_source_ext"]}}


def tojson(case):
    kind, v, w = case
    if kind == "array":
        return [kind, [tojson(x) for x in v], w]
    if kind == "annotation":
        return [kind, [v[0], [[n, tojson(x)] for n, x in v[1]]], w]
    if kind in ("field", "enum", "method"):
        return [kind, [list(x) if isinstance(x, tuple) else x for x in v], w]
    return [kind, v, w]


def fromjson(j):
    kind, v, w = j
    if kind == "array":
        return (kind, [fromjson(x) for x in v], w)
    if kind == "annotation":
        return (kind, (v[0], [(n, fromjson(x)) for n, x in v[1]]), w)
    if kind in ("field", "enum", "method"):
        return (kind, tuple(tuple(x) if isinstance(x, list) else x for x in v), w)
    return (kind, v, w)


def run_shard(ctx, shard):
    acc = Acc()
    i, short = shard
    if i == "ftypes":
        m = mid_indices_ok()
        if m:
            acc.harness_error(m)
        for order in (0, 1):
            res = judge_ftypes(order)
            for k, (ft, kind, v) in enumerate(FT_CASES):
                acc.case(nontrivial=repr(("ftype", order, k)), outcome="ftype:%s:%s" % (kind, ft))
            for key, msg in res:
                acc.violation(key, {"ftypes": order}, msg)
        acc.sample({"declared_type_x_value": [list(c) for c in FT_CASES[:4]]})
        return acc
    if i == "shared":
        for case in shared_cases():
            res = judge_shared(case)
            acc.case(nontrivial=repr(("shared", case)), outcome="shared")
            for key, msg in res:
                if key == "harness":
                    acc.harness_error(msg)
                else:
                    acc.violation(key, {"shared": list(case)}, msg)
        acc.sample({"shared_static_values": {"fields_P": 3, "fields_Q": 1, "values": 1, "class_order": "P,Q"}})
        return acc
    cases = batches()[i]
    res = judge(cases, short_static=3 if short else 0)
    for c in cases:
        acc.case(nontrivial=repr((short, c)) if is_nontrivial(c) else None, outcome=c[0])
    for case, key, msg in res:
        acc.violation(key, {"cases": [tojson(c) for c in cases], "short": 3 if short else 0, "failing": tojson(case)}, msg)
    if i == 0 and not short:
        acc.sample({"cases": [tojson(c) for c in cases[:6]]})
    return acc


def replay(ctx, w):
    if "ftypes" in w:
        res = judge_ftypes(w["ftypes"])
        return "\n".join("%s: %s" % r for r in res) if res else None
    if "shared" in w:
        res = judge_shared(tuple(w["shared"]))
        return "\n".join("%s: %s" % r for r in res) if res else None
    res = judge([fromjson(c) for c in w["cases"]], short_static=w.get("short", 0))
    return "\n".join("%s: %s" % (k, m) for _, k, m in res) if res else None


def finalize(ctx, acc):
    if len(acc.outcomes) < 10:
        acc.harness_error("vacuous: %d value kinds" % len(acc.outcomes))
