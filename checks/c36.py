"""C36  Concurrent sessions on one database get distinct identifiers  (engine E5: schedule exploration, + TLC).

System: N in {2,3} long-lived worker processes (mc/sched.py).  Each, when first granted, executes the real
`androguard.session.Session(db_url="sqlite:///<scratch>/s.db")` on a copy of a warmed-up database (tables exist, one
session row).  Inside every worker a SQLAlchemy `before_cursor_execute` listener on the Engine class makes every
statement that reads or writes rows of table `session` a scheduling point; schema / PRAGMA / transaction-control /
other-table statements are not points (they commute with every step or are lock acquisitions = right movers, and are
therefore merged into the following point).  SQLite's busy timeout is set to 0 in the workers so that a lock conflict
is an immediate, deterministic error (only one worker ever runs at a time): a granted worker that hits a lock while
another worker is paused mid-constructor was not enabled -> the schedule is infeasible and pruned.

Exploration: all interleavings of the workers' steps by stateless DFS with prefix replay, points discovered
dynamically, every schedule on a fresh database copy, every complete schedule run twice (identical observations
required).  Oracle (per complete schedule): all N constructors returned, the N session ids are pairwise distinct and
distinct from the pre-existing ids, and table `session` has exactly N new rows (old rows kept).

Second initial state ('released'): a database in the layout released androguard has created so far, built by this check
with fixed DDL (RELEASED_DDL: table session(id), WAL) and two old rows - it does not follow the code under test.  There
the implementation may have to change the schema first, so the prologue (which reflects the schema) is a step of its own
(eager start) and CREATE/ALTER/DROP statements naming table session are scheduling points ('S').  All interleavings for
N=2 (N=3 in the thorough tier), same oracle, keys "N=<n>:released-layout:<class>".

Third initial state ('emptied'): the warmed database with every session row deleted - the first sessions of a database,
where an id rule that differs on an empty table (seed the numbering, count==0 shortcut) is the only one in force.  All
interleavings for N=2 and N=3, same oracle, keys "N=<n>:emptied-layout:<class>".

Adder dimension: a third kind of actor, the ADDER - a worker that already owns a session (created unscheduled before
every schedule) and runs Session.add(<tiny DEX from gen/dexgen.py>) - is interleaved with 1 and 2 session creators.  The
adder's scheduling points are every SQL statement it executes plus the entries of the two long computations of add():
DEX parsing ('P', dex.DEX.__init__) and xref creation ('X', Analysis.create_xref).  A pause at P/X stands for a
computation of unbounded length, so a creator that hits a database lock while the adder is paused there (and nobody else
is mid-operation) is NOT pruned as infeasible: no busy timeout would have saved it, the creation really fails
(key "adder-holds-lock:creation-failed").  Equivalent invariant, recorded too: the adder is never paused at P/X inside
an open write transaction.  The adder's own add() is not judged.  The TLA+ models do not have the adder.

Observations are free of wall-clock values: statement parameters are reported as integers (ids) or type names only,
exception messages are not compared between the two executions of a schedule.

TLC cross-check: the model is selected by the OBSERVED shape of the implementation (one sequential probe run): one
insert per constructor -> models/SessionIdsAtomic.tla (repaired protocol), read then one-parameter insert ->
models/SessionIds.tla (two-step protocol; id rule 'count' or 'max' read off the probe), anything else -> no model, a
note in the evidence.  The selected model is checked by TLC, its dumped state graph is parsed, every maximal path is
replayed on the real workers and the per-step observations are compared.  A model never decides the verdict.
"""
import json
import os
import re
import shutil
import sqlite3
import subprocess
import tempfile

from mc.core import Acc

PROPERTY = "C36"
LEVEL = "model_checking"
SERIAL = True
RULE = ("every interleaving of the session-table statements (scheduling points, discovered dynamically) of N=2 and N=3 "
        "real Session() constructors in separate OS processes, each on a fresh copy of a warmed-up SQLite database, and "
        "(N=2; N=3 thorough) on a fresh copy of a database in the released layout built with fixed DDL where prologue and "
        "schema changes on the table are steps too, and of 1 ADDER (Session.add of a tiny DEX: points at each SQL "
        "statement and at the parse / xref computations) with 1 and 2 creators; "
        "non-trivial = a schedule in which at least two constructors overlap; distinct by construction (DFS over "
        "choice sequences)")
ASSUMPTIONS = [
    "SQLite through SQLAlchemy/dataset as installed; statements reach the database through SQLAlchemy cursors",
    "tables exist before the race (table-creation races are outside the stated quantifier)",
    "schema/PRAGMA/transaction-control statements commute with the other processes' steps or are lock acquisitions "
    "(right movers) and are merged into the next scheduling point",
    "busy timeout 0 in the workers: with one running process at a time a lock conflict means 'not enabled' "
    "(schedule pruned), never a violation, unless no other constructor is in progress",
    "adder dimension: a pause at the parse / xref point models a computation longer than any busy timeout, so a lock "
    "conflict with an adder paused there is a real failure; a conflict with a worker paused elsewhere is 'not enabled'",
    "a constructor that raised releases its database resources before any other process takes its next step (as a "
    "terminating process does); finished sessions stay open until the schedule ends",
]
MANIFEST = {
    "engine": "E5-schedules",
    "technique": "exhaustive interleaving exploration of real processes at owned scheduling points + TLC model replay",
    "text": "Two and three real worker processes construct Session() on one SQLite file; a controller owns every "
            "statement that touches the session table and enumerates all interleavings (stateless DFS, prefix replay, "
            "each schedule executed twice). Every complete schedule is judged: all constructors return, ids pairwise "
            "distinct and new, exactly N new rows. A TLA+ model chosen by the observed protocol shape (atomic insert / read-then-insert) is checked by TLC and enumerates the same interleavings independently; "
            "each of its paths is replayed on the workers and compared step by step. Complete for N<=3 and the "
            "statement-level atomicity SQLite provides.",
    "note": "Trusted: SQLAlchemy event hooks see every statement; SQLite statement atomicity; classification of a "
            "statement as touching table 'session' by its SQL text. The TLA+ model can only add evidence, never an alarm.",
}

TASK = "checks.c36"
MODELS = os.path.join(os.path.dirname(os.path.dirname(os.path.abspath(__file__))), "models")
TLC_N_QUICK = [2, 3]
TLC_N_THOROUGH = [2, 3]
QUICK_TLC_MAX_PATHS = 20      # quick tier: a larger path set (two-step model, N=3: 90) is replayed in thorough only
MAX_TLC_PATHS = 5000
TLC_TIMEOUT = 300


def space(ctx):
    return {"N": [2, 3], "scheduling_points": "every SQL statement on rows of table 'session' (discovered at run time)",
            "pre_existing_sessions": 1,
            "adder_dimension": "{1 adder} x {1, 2 creators}; adder points: each SQL statement of Session.add(tiny DEX), P (DEX parse), X (create_xref)",
            "initial_states": {"warmed": "created by Session() of the code under test, N=2,3",
                               "released": "fixed DDL %r, rows %r, N=2%s" % (RELEASED_DDL[1], RELEASED_ROWS, ",3" if ctx.thorough else "")}, "horizon": {"points_per_worker": 32, "schedule_runs": 20000, "tlc_paths": MAX_TLC_PATHS},
            "tlc": {"N": TLC_N_THOROUGH if ctx.thorough else TLC_N_QUICK,
                    "models": {"one insert per constructor": "SessionIdsAtomic", "read then one-parameter insert": "SessionIds"},
                    "paths_replayed": "all" if ctx.thorough else "all if <= %d per N" % QUICK_TLC_MAX_PATHS}}


# =====================================================================================================
# worker side (imported inside the worker processes by mc/sched.py)
# =====================================================================================================
_TOK = re.compile(r"""'(?:[^']|'')*'|"([^"]*)"|`([^`]*)`|\[([^\]]*)\]|([A-Za-z_][A-Za-z0-9_$]*)""")
_NOT_POINTS = {"PRAGMA", "BEGIN", "COMMIT", "END", "ROLLBACK", "SAVEPOINT", "RELEASE",
               "ATTACH", "DETACH", "VACUUM", "ANALYZE", "REINDEX", "EXPLAIN"}
_SCHEMA_VERBS = {"CREATE", "ALTER", "DROP"}
_SCHEMA_TABLES = {"sqlite_master", "sqlite_temp_master", "sqlite_schema", "sqlite_temp_schema", "sqlite_sequence"}


def classify(sql):
    """None, or the kind of a statement on table `session`: reads rows ('R'), writes rows ('W' insert, 'U' update,
    'D' delete), changes its schema ('S': CREATE / ALTER / DROP naming the table)."""
    idents = []
    for m in _TOK.finditer(sql):
        t = m.group(1) or m.group(2) or m.group(3) or m.group(4)
        if t:
            idents.append(t)
    if not idents:
        return None
    first = idents[0].upper()
    if first in _NOT_POINTS:
        return None
    low = [t.lower() for t in idents]
    if "session" not in low or _SCHEMA_TABLES & set(low):
        return None
    if first in _SCHEMA_VERBS:
        return "S"
    up = set(t.upper() for t in idents)
    if first == "SELECT" or (first == "WITH" and not up & {"INSERT", "UPDATE", "DELETE", "REPLACE"}):
        return "R"
    if first in ("INSERT", "REPLACE") or (first == "WITH" and up & {"INSERT", "REPLACE"}):
        return "W"
    if first == "UPDATE" or (first == "WITH" and "UPDATE" in up):
        return "U"
    if first == "DELETE" or (first == "WITH" and "DELETE" in up):
        return "D"
    return None


def _jsonable(x):
    if x is None or isinstance(x, (bool, int, str)):
        return x
    if isinstance(x, float):
        return repr(x)
    if isinstance(x, (list, tuple)):
        return [_jsonable(v) for v in x]
    if isinstance(x, dict):
        return {str(k): _jsonable(v) for k, v in sorted(x.items(), key=lambda kv: str(kv[0]))}
    return "<%s>" % type(x).__name__


def _ids_only(x):
    """Statement parameters as reported to the controller: integers (ids) are kept, every other value is replaced by
    its type name - strings/floats may be wall-clock values the implementation stores (e.g. a creation timestamp)."""
    if x is None or isinstance(x, (bool, int)):
        return x
    if isinstance(x, (list, tuple)):
        return [_ids_only(v) for v in x]
    if isinstance(x, dict):
        return {str(k): _ids_only(v) for k, v in sorted(x.items(), key=lambda kv: str(kv[0]))}
    return "<%s>" % type(x).__name__


def _is_lock_error(e):
    """SQLITE_BUSY / SQLITE_LOCKED caused by another connection's lock (not BUSY_SNAPSHOT, which no waiting cures)."""
    if not isinstance(e, sqlite3.OperationalError):
        return False
    code = getattr(e, "sqlite_errorcode", None)
    if code is not None:
        return (code & 0xff) in (5, 6) and code != 517
    return "is locked" in str(e)


_LIVE = []
_API = None
_ARMED = False


def wk_preload():
    import androguard.session      # noqa  (heavy: done once in the zygote, the workers are forked from it)
    import sqlalchemy.event        # noqa
    wk_warm()
    import gc
    gc.collect()
    gc.freeze()                    # forked workers do not re-scan (and thereby copy) the zygote's heap


def wk_warm():
    """Best effort, harness only: run the constructor twice on a throw-away database so that lazily imported parts
    (dialect, reflection, alembic) are loaded in the zygote and a forked worker's pages are faulted in before its
    first real step.  Scheduling points are disarmed meanwhile."""
    global _ARMED
    _ARMED = False
    d = tempfile.mkdtemp(prefix="warm_", dir=os.environ.get("VERIF_SCHED_ROOT"))   # inside the pool's scratch root
    try:
        from androguard.session import Session
        for _ in range(2):
            s = Session(db_url="sqlite:///%s/w.db" % d)
            s.db.close()
            del s
    except Exception:
        pass
    finally:
        shutil.rmtree(d, ignore_errors=True)


def classify_any(sql):
    """Adder mode: every statement that reads or writes user data or schema is a point ('R','W','U','D','S'); PRAGMA,
    transaction control and catalogue queries are not."""
    idents = [m.group(1) or m.group(2) or m.group(3) or m.group(4) for m in _TOK.finditer(sql)]
    idents = [t for t in idents if t]
    if not idents:
        return None
    first = idents[0].upper()
    if first in _NOT_POINTS or _SCHEMA_TABLES & set(t.lower() for t in idents):
        return None
    if first in _SCHEMA_VERBS:
        return "S"
    return {"SELECT": "R", "INSERT": "W", "REPLACE": "W", "UPDATE": "U", "DELETE": "D"}.get(first)


_MODE = "create"
_CONNS = []


def _in_write_txn():
    """Is any of this process's DBAPI connections inside a transaction?  (sqlite3 opens one only before a write.)"""
    return any(getattr(c, "in_transaction", False) for c in _CONNS)


def wk_install(api):
    global _API
    _API = api
    from sqlalchemy import event
    from sqlalchemy.engine import Engine

    @event.listens_for(Engine, "connect")
    def _on_connect(dbapi_con, rec):                       # noqa
        if isinstance(dbapi_con, sqlite3.Connection):
            dbapi_con.execute("PRAGMA busy_timeout = 0")
            _CONNS.append(dbapi_con)

    @event.listens_for(Engine, "before_cursor_execute")
    def _before(conn, cursor, statement, parameters, context, executemany):   # noqa
        if not _ARMED:
            return
        k = classify_any(statement) if _MODE == "add" else classify(statement)
        if k:
            info = {"sql": " ".join(statement.split())[:120], "params": _ids_only(parameters)}
            if _MODE == "add":
                info["in_write_txn"] = _in_write_txn()
            api.point(k, info)

    @event.listens_for(Engine, "handle_error")
    def _on_error(ectx):                                   # noqa
        if _ARMED and _is_lock_error(ectx.original_exception):
            api.flag("blocked")

    # adder: the two long computations of Session.add() are scheduling points of their own ('P' parse, 'X' xref)
    import androguard.core.dex as dexmod
    from androguard.core.analysis.analysis import Analysis

    def _wrap(cls, name, kind):
        orig = getattr(cls, name)

        def hooked(self, *a, **k):
            if _ARMED and _MODE == "add":
                api.point(kind, {"compute": "%s.%s" % (cls.__name__, name), "in_write_txn": _in_write_txn()})
            return orig(self, *a, **k)
        hooked.__wrapped__ = orig
        setattr(cls, name, hooked)

    _wrap(dexmod.DEX, "__init__", "P")
    _wrap(Analysis, "create_xref", "X")


def wk_run(arg):
    """op 'create' (default): construct a Session.  op 'add': Session.add() of a tiny DEX on the session this worker
    already owns (created before the schedule by an unscheduled 'create')."""
    global _ARMED, _MODE
    from androguard.session import Session
    _MODE = arg.get("op", "create")
    _ARMED = True
    try:
        if _MODE == "add":
            res = {"digest": _jsonable(_LIVE[-1].add("t.dex", bytes.fromhex(arg["dex"])))}
        else:
            s = Session(db_url=arg["db_url"])
            res = None
    except Exception as e:
        o = getattr(e, "orig", e)
        if _is_lock_error(o) or _is_lock_error(e):
            _API.flag("blocked")
        raise
    finally:
        _ARMED = False
    if res is not None:
        return res
    _LIVE.append(s)           # sessions are long-lived objects: keep it (and its connection) until the schedule ends
    return {"session_id": _jsonable(s.session_id)}


def wk_failed():
    """The constructor raised.  Its half-built Session is garbage now; collect it so that the connection (and a
    write transaction the failed statement may have left open) is released, as it is when the failing process ends."""
    import gc
    gc.collect()


def wk_reset():
    import gc
    del _CONNS[:]
    while _LIVE:
        s = _LIVE.pop()
        try:
            s.db.close()
        except Exception:
            pass
        del s
    gc.collect()


# =====================================================================================================
# controller side
# =====================================================================================================
# The layout androguard/session.py has created so far (read off a pristine warm-up once, then frozen here so that it
# does NOT follow the code under test): table `session` with the single column `id`; dataset switches the file to WAL.
# History: two sessions written by released code (ids counted from 0).
RELEASED_DDL = ["PRAGMA journal_mode=WAL",
                "CREATE TABLE session (\n\tid INTEGER NOT NULL, \n\tPRIMARY KEY (id)\n)"]
RELEASED_ROWS = [0, 1]


class Init:
    """One initial state of the exploration: a template database directory copied afresh for every schedule."""
    adder = False
    long_pause = None
    def __init__(self, name, template, pre, lazy):
        self.name, self.template, self.pre, self.lazy = name, template, pre, lazy
        self.files = sorted(os.listdir(template))

    def fresh(self, group):
        for f in os.listdir(group.dir):
            os.remove(os.path.join(group.dir, f))
        for f in self.files:
            shutil.copyfile(os.path.join(self.template, f), os.path.join(group.dir, f))
        return {"db_url": "sqlite:///%s/s.db" % group.dir}


def tiny_dex():
    """A minimal valid DEX (one class, one method 'return-void') from the independent writer gen/dexgen.py."""
    from gen import dexgen as G
    m = G.Method("m", "V", (), G.ACC_PUBLIC, G.Code(registers=1, ins=1, outs=0, insns=b"\x0e\x00"))
    return G.build(G.Dex([G.Class("Lt/A;", vmethods=[m])]))


class AdderInit(Init):
    """Initial state of the adder dimension: the warmed database plus one more session, owned by worker 1 (the ADDER),
    created unscheduled before every schedule.  Worker 1's scheduled operation is Session.add(<tiny DEX>) with a point
    at every SQL statement and at the parse ('P') and xref ('X') computations; the other workers create sessions."""
    adder = True

    def __init__(self, warmed):
        Init.__init__(self, "adder", warmed.template, None, True)
        self.dex = tiny_dex().hex()

    def fresh(self, group):
        from mc import sched
        group.reset([0])                                    # drop the adder session of the previous schedule
        arg = Init.fresh(self, group)
        ev = group.call(0, dict(arg, op="create"))
        if ev["ev"] != "done":
            raise sched.SchedError("the adder could not create its own session: %r" % (ev,))
        return [dict(arg, op="add", dex=self.dex)] + [dict(arg, op="create")] * (len(group.workers) - 1)

    @staticmethod
    def long_pause(ev):
        return bool(ev) and ev.get("kind") in ("P", "X")


class Env:
    """Pool of controller groups + the initial states:
    'warmed'   a database created by one Session() of the code under test (lazy first step);
    'released' a database in the released layout built by this check with fixed DDL (RELEASED_DDL), where the code under
               test may have to change the schema first: the prologue (which reflects the schema) is a step of its own
               and CREATE/ALTER/DROP on table session are scheduling points."""

    def __init__(self, ctx, ngroups, size=3):
        from mc import sched
        self.sched = sched
        self.pool = sched.Pool(ngroups, size, ctx.repo, TASK)
        try:
            t = os.path.join(self.pool.root, "template")
            os.makedirs(t)
            g = self.pool.groups[0]
            ev = g.call(0, {"db_url": "sqlite:///%s/s.db" % t})
            if ev["ev"] != "done":
                raise sched.SchedError("warm-up Session() failed: %r" % (ev,))
            g.reset([0])
            pre = _read_rows(os.path.join(t, "s.db"))
            if not isinstance(pre, list) or len(pre) != 1:
                raise sched.SchedError("warm-up left rows %r in table session (expected one)" % (pre,))
            t2 = os.path.join(self.pool.root, "template_released")
            os.makedirs(t2)
            con = sqlite3.connect(os.path.join(t2, "s.db"), isolation_level=None)
            try:
                for stmt in RELEASED_DDL:
                    con.execute(stmt).fetchall()
                for i in RELEASED_ROWS:
                    con.execute("INSERT INTO session (id) VALUES (?)", (i,))
            finally:
                con.close()
            t3 = os.path.join(self.pool.root, "template_emptied")   # warmed schema, no session yet
            shutil.copytree(t, t3)
            con = sqlite3.connect(os.path.join(t3, "s.db"), isolation_level=None)
            try:
                con.execute("DELETE FROM session").fetchall()
            finally:
                con.close()
            if _read_rows(os.path.join(t3, "s.db")) != []:
                raise sched.SchedError("emptied template still has session rows")
            self.inits = {"warmed": Init("warmed", t, pre, True),
                          "released": Init("released", t2, list(RELEASED_ROWS), False),
                          "emptied": Init("emptied", t3, [], True)}
            self.inits["adder"] = AdderInit(self.inits["warmed"])
            if _read_rows(os.path.join(t2, "s.db")) != RELEASED_ROWS:
                raise sched.SchedError("released-layout template not built as intended")
            self.pre = pre
            self.fresh = self.inits["warmed"].fresh
        except BaseException:
            self.pool.close()
            raise

    @staticmethod
    def observe(group):
        return _read_rows(os.path.join(group.dir, "s.db"))

    def close(self):
        self.pool.close()


def _read_rows(path):
    """Committed contents of table session as seen by one more process (sorted ids), or 'locked'."""
    try:
        con = sqlite3.connect(path, timeout=0, isolation_level=None)
        try:
            return [_jsonable(r[0]) for r in con.execute("SELECT id FROM session ORDER BY id")]
        finally:
            con.close()
    except sqlite3.OperationalError as e:
        return "unreadable: %s" % e


_ENV = None


def _env(ctx):
    global _ENV
    if _ENV is None:
        _ENV = Env(ctx, max(1, min(4, ctx.workers // 4)))
    return _ENV


def _close_env():
    global _ENV
    if _ENV is not None:
        _ENV.close()
        _ENV = None


# ---- describing and judging one executed schedule -----------------------------------------------------
def step_kinds(step):
    """Statements on table session executed in this step ('-' = none: the prologue step of an eagerly started worker)."""
    return "".join(k for k, _ in step.ev.get("passed", ())) or "-"


def schedule_text(run):
    return " ".join("%s%d" % (step_kinds(s).replace("-", "B"), s.w + 1) for s in run.steps)     # B = prologue only


def shape_class(run):
    """Input-side class of a schedule: how the constructors' windows [first step, last step] overlap."""
    pos = {}
    for d, s in enumerate(run.steps):
        pos.setdefault(s.w, []).append(d)
    overlap = False
    write_inside = False
    for w, ds in pos.items():
        lo, hi = ds[0], ds[-1]
        for d in range(lo + 1, hi):
            s = run.steps[d]
            if s.w != w:
                overlap = True
                if set(step_kinds(s)) & set("WUDS"):
                    write_inside = True
    if not overlap:
        return "sequential"
    return "other-write-inside-window" if write_inside else "overlap-without-write"


def judge(n, run, pre, creators=None):
    """The oracle.  None if the property holds on this complete schedule, else a message.
    creators: the workers whose operation is a Session() construction (default: all)."""
    bad = []
    ids = []
    creators = list(range(n)) if creators is None else list(creators)
    for w in creators:
        f = run.final[w]
        if f is None or f["ev"] != "done":
            bad.append("constructor of worker %d did not return: %s: %s"
                       % (w + 1, f and f.get("type"), (f and f.get("msg", "") or "").split("\n")[0][:200]))
        else:
            ids.append((w + 1, f["result"]["session_id"]))
    for i in range(len(ids)):
        for j in range(i + 1, len(ids)):
            if ids[i][1] == ids[j][1]:
                bad.append("workers %d and %d both got session_id %r" % (ids[i][0], ids[j][0], ids[i][1]))
        if ids[i][1] in pre:
            bad.append("worker %d got session_id %r which a pre-existing session has" % (ids[i][0], ids[i][1]))
    rows = run.steps[-1].obs if run.steps else run.obs0
    if not isinstance(rows, list):
        bad.append("table session not readable after the schedule: %r" % (rows,))
    else:
        new = list(rows)
        for p in pre:
            if p in new:
                new.remove(p)
            else:
                bad.append("pre-existing row %r disappeared" % (p,))
        if len(new) != len(creators):
            bad.append("table session has %d new rows %r, expected %d" % (len(new), new, len(creators)))
    if not bad:
        return None
    return "N=%d schedule [%s] (%s): %s" % (n, schedule_text(run), shape_class(run), "; ".join(bad))


def outcome_of(n, run):
    """Observation canonicalised up to worker renaming (vacuity counter)."""
    per = []
    for w in range(n):
        f = run.final[w]
        per.append(("done", f["result"].get("session_id", "added")) if f and f["ev"] == "done" else ("exc", f and f.get("type")))
    return (n, tuple(sorted(per, key=repr)), tuple(run.steps[-1].obs) if run.steps and isinstance(run.steps[-1].obs, list) else None)


def states_of(n, run):
    """Controller states along a run: (per-worker progress, committed table contents); and the edges between them."""
    ws = [("idle",)] * n
    last = [None] * n
    cur = (tuple(ws), json.dumps(run.obs0))
    out = [cur]
    edges = []
    for s in run.steps:
        ev = s.ev
        if ev["ev"] == "point":
            last[s.w] = json.dumps(ev.get("info", {}).get("params") if isinstance(ev.get("info"), dict) else None)
            ws[s.w] = ("paused", ev.get("kind"), last[s.w])
        elif ev["ev"] == "done":
            ws[s.w] = ("done", json.dumps(ev["result"]))
        else:
            ws[s.w] = ("exc", ev.get("type"), last[s.w])
        nxt = (tuple(ws), json.dumps(s.obs))
        edges.append((cur, s.w, nxt))
        out.append(nxt)
        cur = nxt
    return out, edges


def sample_of(n, run, verdict):
    return {"N": n, "schedule": schedule_text(run), "class": shape_class(run),
            "ids": [f["result"].get("session_id", "added") if f and f["ev"] == "done" else "%s" % (f and f.get("type")) for f in run.final],
            "rows_before": run.obs0, "rows_after_each_step": [s.obs for s in run.steps], "holds": verdict is None}


# ---- direct exploration -------------------------------------------------------------------------------
def shards(ctx):
    return ([("explore", 2), ("explore", 3), ("released", 2)] + ([("released", 3)] if ctx.thorough else [])
            + [("emptied", 2), ("emptied", 3)]
            + [("adder", 1), ("adder", 2)]
            + [("tlc", n) for n in (TLC_N_THOROUGH if ctx.thorough else TLC_N_QUICK)])


def run_explore(ctx, n, init_name="warmed"):
    env = _env(ctx)
    acc = Acc()
    init = env.inits[init_name]
    pre = init.pre
    tag = "" if init_name == "warmed" else init_name + "_"           # counters
    ktag = "" if init_name == "warmed" else init_name + "-layout:"   # violation keys
    idesc = {"released": "database in the released layout (fixed DDL, rows %r). " % (pre,),
             "emptied": "database created by the code under test whose session table is empty (no session yet). "}
    ex = env.sched.explore(env.pool, n, init.fresh, env.observe, rerun=True, lazy=init.lazy)
    for e in ex.errors:
        acc.harness_error("%sN=%d: %s" % (ktag, n, e))
    if ex.capped:
        acc.capped = ex.capped
    edges = set()
    points = set()
    pick = ctx.seed % max(1, len(ex.complete))
    bad_sampled = False
    for i, sched in enumerate(sorted(ex.complete)):
        run = ex.complete[sched]
        verdict = judge(n, run, pre)
        cls = shape_class(run)
        acc.case(nontrivial=(init_name, n, sched) if cls != "sequential" else None, outcome=(init_name, outcome_of(n, run)))
        acc.traces += 1
        acc.transitions += len(run.steps)
        st, ed = states_of(n, run)
        for x in st:
            acc.state((init_name, n, x))
        edges.update(ed)
        per = {}
        for s in run.steps:
            per[s.w] = per.get(s.w, 0) + len(s.ev.get("passed", ()))
        points.update(per.values())
        if len(per) < n:
            points.add(0)
        if verdict is not None:
            acc.violation("N=%d:%s%s" % (n, ktag, cls),
                          {"n": n, "init": init_name, "schedule": [w + 1 for w in sched], "text": schedule_text(run)},
                          ("initial state: " + idesc[init_name] if ktag else "") + verdict)
        if i == 0 or i == pick or (verdict is not None and not bad_sampled):
            acc.sample(dict(sample_of(n, run, verdict), init=init_name))
            bad_sampled = bad_sampled or verdict is not None
    for sched in sorted(ex.infeasible):
        run = ex.infeasible[sched]
        acc.transitions += len(run.steps)
        st, ed = states_of(n, run)
        for x in st[:-1]:
            acc.state((init_name, n, x))
    for prefix in ex.deadlocks():
        acc.violation("N=%d:%sdeadlock" % (n, ktag), {"n": n, "init": init_name, "schedule": [w + 1 for w in prefix], "expect": "deadlock"},
                      "N=%d: after schedule prefix %r every unfinished constructor is blocked by a lock held by another "
                      "paused constructor: none can complete" % (n, [w + 1 for w in prefix]))
    acc.count("schedules_%sN%d" % (tag, n), len(ex.complete))
    acc.count("infeasible_pruned", len(ex.infeasible))
    acc.count("determinism_reruns", ex.reruns)
    acc.count("distinct_states_%sN%d" % (tag, n), len(set(x for r in ex.complete.values() for x in states_of(n, r)[0])))
    acc.count("distinct_transitions_%sN%d" % (tag, n), len(edges))
    acc.count("schedules_violating_%sN%d" % (tag, n), sum(1 for r in ex.complete.values() if judge(n, r, pre) is not None))
    acc.note("%sN=%d: scheduling points per constructor observed: %s" % (ktag, n, sorted(points)))
    if points == {0}:
        acc.harness_error(ktag + "N=%d: no statement on table session was seen in any constructor: the SQLAlchemy hook is dead" % n)
    if not ex.complete and not ex.deadlocks() and not ex.errors:
        acc.harness_error(ktag + "N=%d: no complete schedule exists (every schedule pruned as infeasible)" % n)
    return acc


# ---- adder dimension: one worker that owns a session runs Session.add() while 1..2 others create sessions ----
ADDER_KEY = "adder-holds-lock:creation-failed"


def judge_adder(n, run):
    """-> (key, message) or None.  Oracle of C36 for the creators (workers 2..n); the adder's own add() is not judged."""
    pre = run.obs0 if isinstance(run.obs0, list) else []
    msg = judge(n, run, pre, creators=range(1, n))
    if msg is None:
        return None
    held = [w for w in range(1, n) if run.final[w] and run.final[w].get("blocked_by_long_pause")]
    if held:
        at = sorted(set(step_kinds(s) for s in run.steps if s.w == 0))
        return ADDER_KEY, ("1 adder (worker 1, Session.add of a tiny DEX) + %d creator(s): creator worker(s) %s hit a database "
                           "lock held by the adder while it was paused inside a long computation (parse / xref point): with "
                           "a real file that lasts longer than SQLite's busy timeout the session is not created. " % (n - 1, [w + 1 for w in held])) + msg
    return "adder+%dcreators:%s" % (n - 1, shape_class(run)), "1 adder + %d creator(s): %s" % (n - 1, msg)


def run_adder(ctx, c):
    env = _env(ctx)
    acc = Acc()
    init = env.inits["adder"]
    n = 1 + c
    ex = env.sched.explore(env.pool, n, init.fresh, env.observe, rerun=True, lazy=True, long_pause=init.long_pause)
    for e in ex.errors:
        acc.harness_error("adder+%d: %s" % (c, e))
    if ex.capped:
        acc.capped = ex.capped
    adder_kinds = set()
    open_txn = []
    pick = ctx.seed % max(1, len(ex.complete))
    bad_sampled = False
    nviol = 0
    for i, sched in enumerate(sorted(ex.complete)):
        run = ex.complete[sched]
        v = judge_adder(n, run)
        acc.case(nontrivial=("adder", n, sched), outcome=("adder", outcome_of(n, run)))
        acc.traces += 1
        acc.transitions += len(run.steps)
        for x in states_of(n, run)[0]:
            acc.state(("adder", n, x))
        for st in run.steps:
            if st.w == 0:
                adder_kinds.update(step_kinds(st).replace("-", ""))
                ev = st.ev
                if ev["ev"] == "point" and ev.get("kind") in ("P", "X") and isinstance(ev.get("info"), dict) \
                        and ev["info"].get("in_write_txn"):
                    open_txn.append((sched, ev.get("kind")))
        if run.final[0] is None or run.final[0]["ev"] != "done":
            acc.note("adder+%d: the adder's own add() did not return in schedule [%s] (%s) - not judged by C36"
                     % (c, schedule_text(run), run.final[0] and run.final[0].get("type")))
        if v is not None:
            nviol += 1
            acc.violation(v[0], {"n": n, "init": "adder", "schedule": [w + 1 for w in sched], "text": schedule_text(run)}, v[1])
        if i == 0 or i == pick or (v is not None and not bad_sampled):
            acc.sample(dict(sample_of(n, run, v), init="adder (worker 1 = adder)"))
            bad_sampled = bad_sampled or v is not None
    for sched in sorted(ex.infeasible):
        acc.transitions += len(ex.infeasible[sched].steps)
    for prefix in ex.deadlocks():
        acc.violation("adder+%dcreators:deadlock" % c, {"n": n, "init": "adder", "schedule": [w + 1 for w in prefix], "expect": "deadlock"},
                      "1 adder + %d creator(s): after schedule prefix %r every unfinished worker is blocked by a paused one"
                      % (c, [w + 1 for w in prefix]))
    if open_txn and ADDER_KEY not in acc.viol:
        sched, kind = open_txn[0]
        acc.violation("adder-holds-lock:write-transaction-open-during-computation",
                      {"n": n, "init": "adder", "schedule": [w + 1 for w in sched], "expect": "open-txn"},
                      "the adder is paused at computation point %s inside an open write transaction (schedule %r) although no "
                      "creator happened to fail" % (kind, [w + 1 for w in sched]))
    acc.count("schedules_adder_%dcreators" % c, len(ex.complete))
    acc.count("schedules_violating_adder_%dcreators" % c, nviol)
    acc.count("adder_pauses_in_open_write_transaction", len(open_txn))
    acc.count("infeasible_pruned", len(ex.infeasible))
    acc.count("determinism_reruns", ex.reruns)
    acc.note("adder+%d creators: adder steps execute statement kinds %s (S/W/... SQL statements of add(), P parse, X xref); "
             "explored on the implementation only (the TLA+ models do not have the adder)" % (c, sorted(adder_kinds)))
    if not ex.errors and not ex.capped:
        if not {"W", "P"} <= adder_kinds:
            acc.harness_error("adder+%d: the adder never passed a write and a parse point (%s): hooks dead or add() changed shape"
                              % (c, sorted(adder_kinds)))
        if len(ex.complete) < 2 and not ex.deadlocks():
            acc.harness_error("adder+%d: fewer than two complete schedules" % c)
    return acc


# ---- TLC cross-check ----------------------------------------------------------------------------------
def _tla_value(txt):
    txt = txt.strip()
    if txt.startswith("<<"):
        inner = txt[2:-2].strip()
        return [_tla_value(x) for x in _split_top(inner)] if inner else []
    if txt.startswith("{"):
        inner = txt[1:-1].strip()
        return sorted(_tla_value(x) for x in _split_top(inner)) if inner else []
    if txt.startswith('"'):
        return txt[1:-1]
    m = re.fullmatch(r"(-?\d+)\.\.(-?\d+)", txt)
    if m:
        return list(range(int(m.group(1)), int(m.group(2)) + 1))
    return int(txt)


def _split_top(s):
    out, depth, cur = [], 0, ""
    i = 0
    while i < len(s):
        two = s[i:i + 2]
        if two in ("<<", ">>"):
            depth += 1 if two == "<<" else -1
            cur += two
            i += 2
            continue
        c = s[i]
        if c in "{(":
            depth += 1
        elif c in "})":
            depth -= 1
        if c == "," and depth == 0:
            out.append(cur)
            cur = ""
        else:
            cur += c
        i += 1
    if cur.strip():
        out.append(cur)
    return out


def parse_dot(text):
    """-> (init id, {id: state dict}, {id: [(action, proc, dst id)]}) from TLC's `-dump dot,actionlabels` output."""
    nodes, edges, init = {}, {}, None
    for line in text.splitlines():
        m = re.match(r'^(-?\d+) -> (-?\d+) \[label="([A-Za-z_]+)(?:\((\d+)\))?"', line)
        if m:
            edges.setdefault(m.group(1), []).append((m.group(3), int(m.group(4)) if m.group(4) else None, m.group(2)))
            continue
        m = re.match(r'^(-?\d+) \[label="((?:[^"\\]|\\.)*)"', line)
        if m:
            lab = m.group(2).replace("\\n", "\n").replace('\\"', '"').replace("\\\\", "\\")
            st = {}
            for ln in lab.split("\n"):
                mm = re.match(r"^\s*/\\\s*(\w+)\s*=\s*(.*)$", ln)
                if mm:
                    st[mm.group(1)] = _tla_value(mm.group(2))
            nodes[m.group(1)] = st
            if "style = filled" in line:
                init = m.group(1)
    return init, nodes, edges


def observed_shape(n, run, pre):
    """Which protocol does the implementation follow?  Decided from ONE sequential probe run (no interleaving).

    -> (model name or None, constants dict, description).  'SessionIdsAtomic': every constructor is one step that
    executes a single insert and returns.  'SessionIds': every constructor is a read step that ends paused at a
    one-parameter insert, then the insert step; Rule is read off the first id computed ('count' = number of rows,
    'max' = largest id + 1)."""
    per = {}
    for s in run.steps:
        per.setdefault(s.w, []).append(s)
    desc = "sequential probe [%s]" % schedule_text(run)
    if run.status != "complete" or len(per) != n or not all(isinstance(x, int) and x >= 0 for x in pre):
        return None, {}, desc
    shapes = set(tuple(step_kinds(s) for s in steps) for steps in per.values())
    if shapes == {("W",)}:
        if all(steps[0].ev["ev"] == "done" for steps in per.values()):
            return "SessionIdsAtomic", {"N": n, "PreRows": pre}, desc + ": one insert per constructor"
        return None, {}, desc
    if shapes == {("R", "W")}:
        first = None
        for s in run.steps:
            ev = s.ev
            params = ev.get("info", {}).get("params") if ev["ev"] == "point" and isinstance(ev.get("info"), dict) else None
            if step_kinds(s) == "R":
                if ev["ev"] != "point" or ev.get("kind") != "W" or not isinstance(params, list) or len(params) != 1 \
                        or not isinstance(params[0], int):
                    return None, {}, desc + ": read not followed by a one-parameter insert"
                if first is None:
                    first = params[0]
            elif ev["ev"] == "point":
                return None, {}, desc + ": constructor continues after its insert"
        if first == len(pre):
            rule = "count"
        elif first == (max(pre) + 1 if pre else 1):
            rule = "max"
        else:
            return None, {}, desc + ": first id %r is neither the row count nor max(id)+1 of %r" % (first, pre)
        return "SessionIds", {"N": n, "PreRows": pre, "Rule": rule}, desc + ": read then insert, id rule '%s'" % rule
    return None, {}, desc + ": statements per constructor %s" % sorted(shapes)


def _tla_const(v):
    if isinstance(v, str):
        return '"%s"' % v
    if isinstance(v, (list, tuple, set)):
        return "{" + ", ".join(str(int(x)) for x in sorted(v)) + "}"
    return str(int(v))


def run_tlc(model, consts, tmp):
    """Run TLC on models/<model>.tla with the given constants.
    -> (info dict, paths); paths = list of [(action, proc, state_after)]: every maximal path of the state graph."""
    d = os.path.join(tmp, "tlc_%s_N%d" % (model, consts["N"]))
    os.makedirs(d)
    shutil.copyfile(os.path.join(MODELS, model + ".tla"), os.path.join(d, model + ".tla"))
    with open(os.path.join(MODELS, model + ".cfg")) as f:
        cfg = f.read()
    for name, val in consts.items():
        cfg, k = re.subn(r"(?m)^(\s*%s\s*=\s*).*$" % re.escape(name), lambda m: m.group(1) + _tla_const(val), cfg)
        if k != 1:
            raise RuntimeError("models/%s.cfg: constant %s not found" % (model, name))
    with open(os.path.join(d, model + ".cfg"), "w") as f:
        f.write(cfg)
    p = subprocess.run(["tlc", "-workers", "1", "-noGenerateSpecTE", "-metadir", os.path.join(d, "meta"), "-deadlock",
                        "-continue", "-dump", "dot,actionlabels", os.path.join(d, "graph"), model],
                       cwd=d, capture_output=True, text=True, timeout=TLC_TIMEOUT)
    out = p.stdout + p.stderr
    m = re.search(r"(\d+) states generated, (\d+) distinct states found, (\d+) states left on queue", out)
    if not m or m.group(3) != "0" or "Model checking completed" not in out:
        raise RuntimeError("TLC did not complete:\n" + out[-1500:])
    with open(os.path.join(d, "graph.dot")) as f:
        init, nodes, edges = parse_dot(f.read())
    if init is None or len(nodes) != int(m.group(2)):
        raise RuntimeError("TLC state graph not understood: %d nodes parsed, %s distinct states reported" % (len(nodes), m.group(2)))
    paths = []
    capped = False

    def dfs(node, path):
        nonlocal capped
        if len(paths) >= MAX_TLC_PATHS:
            capped = True
            return
        succ = edges.get(node, [])
        if not succ:
            paths.append(list(path))
            return
        for act, proc, dst in succ:
            path.append((act, proc, nodes[dst]))
            dfs(dst, path)
            path.pop()

    dfs(init, [])
    info = {"states": len(nodes), "transitions": sum(len(v) for v in edges.values()),
            "violated": sorted(set(re.findall(r"Invariant (\w+) is violated", out))), "capped": capped, "init": nodes[init]}
    return info, paths


def conform(model, n, path, run):
    """Compare one TLC path with its replay.  -> ('conform' | 'shape' | 'diverge', detail).

    Shape first (does the implementation execute, step by step, the statements the model's actions stand for?), values
    only for a path whose shape matches: table rows after every step, the id about to be inserted after a Read, the
    outcome (returned id / failed) after an Insert."""
    idvar = "got" if model == "SessionIdsAtomic" else "seen"
    if run.status != "complete" or len(run.steps) != len(path):
        done = len(run.steps)
        what = ""
        if done:
            what = "; step %d executed statements %r where the model has %s" % (done, step_kinds(run.steps[-1]), path[done - 1][0])
        return "shape", "replay ended as %s after %d of %d model steps%s" % (run.status, done, len(path), what)
    for i, ((act, proc, after), s) in enumerate(zip(path, run.steps)):
        kinds = step_kinds(s)
        if kinds != {"Read": "R", "Insert": "W"}.get(act):
            return "shape", "model step %d is %s(%d) but the worker executed statements %r" % (i + 1, act, proc, kinds)
        ev = s.ev
        if act == "Read":
            params = ev.get("info", {}).get("params") if ev["ev"] == "point" else None
            if ev["ev"] != "point" or ev.get("kind") != "W" or not isinstance(params, list) or len(params) != 1:
                return "shape", "after Read(%d) the worker is not paused at a one-parameter INSERT: %r" % (proc, ev)
        elif ev["ev"] == "point":
            return "shape", "after Insert(%d) the constructor continues with another statement" % proc
    for i, ((act, proc, after), s) in enumerate(zip(path, run.steps)):
        ev = s.ev
        if s.obs != after["rows"]:
            return "diverge", "after step %d %s(%d): table rows %r, model rows %r" % (i + 1, act, proc, s.obs, after["rows"])
        if act == "Read":
            got = ev["info"]["params"][0]
            if got != after["seen"][proc - 1]:
                return "diverge", "Read(%d): implementation will insert id %r, model computed %r" % (proc, got, after["seen"][proc - 1])
        else:
            st = after["pc"][proc - 1]
            if (ev["ev"] == "done") != (st == "done"):
                return "diverge", "Insert(%d): implementation %s, model %s" % (proc, ev["ev"], st)
            if ev["ev"] == "done" and ev["result"]["session_id"] != after[idvar][proc - 1]:
                return "diverge", "Insert(%d): session_id %r, model %r" % (proc, ev["result"]["session_id"], after[idvar][proc - 1])
    return "conform", ""


def run_tlc_shard(ctx, n):
    env = _env(ctx)
    acc = Acc()
    if shutil.which("tlc") is None:
        acc.note("tlc not on PATH: TLC cross-check skipped (verdict rests on the direct exploration)")
        return acc
    probe = env.pool.groups[0].run(n, (), env.fresh, env.observe)
    model, consts, desc = observed_shape(n, probe, env.pre)
    if model is None:
        acc.note("TLC N=%d: no model matches the observed shape of the implementation (%s); known shapes: one insert per "
                 "constructor (SessionIdsAtomic), read then one-parameter insert (SessionIds). No conformance replay; the "
                 "verdict rests on the direct exploration only" % (n, desc))
        acc.count("tlc_no_model_for_observed_shape", 1)
        return acc
    tmp = tempfile.mkdtemp(prefix="verif_c36_tlc_")
    try:
        try:
            info, paths = run_tlc(model, consts, tmp)
        except Exception as e:                                # a broken model tool chain is not a verdict
            acc.harness_error("TLC N=%d %s: %s" % (n, model, e))
            return acc
    finally:
        shutil.rmtree(tmp, ignore_errors=True)
    acc.count("tlc_model_%s" % model, 1)
    acc.count("tlc_states", info["states"])
    acc.count("tlc_transitions", info["transitions"])
    acc.count("tlc_states_N%d" % n, info["states"])
    acc.count("tlc_paths_N%d" % n, len(paths))
    head = "TLC N=%d: model %s selected by observed shape (%s), constants %s: %d states, %d transitions, %d maximal paths; " \
           "model invariants violated: %s" % (n, model, desc, ", ".join("%s=%s" % (k, _tla_const(v)) for k, v in sorted(consts.items())),
                                              info["states"], info["transitions"], len(paths), ", ".join(info["violated"]) or "none")
    if info["capped"]:
        acc.note("TLC N=%d: more than %d maximal paths, only the first %d replayed" % (n, MAX_TLC_PATHS, MAX_TLC_PATHS))
    if not ctx.thorough and len(paths) > QUICK_TLC_MAX_PATHS:
        acc.note(head + "; %d paths are replayed in the thorough tier only (quick replays up to %d per N)"
                 % (len(paths), QUICK_TLC_MAX_PATHS))
        return acc
    results = {}
    idvar = "got" if model == "SessionIdsAtomic" else "seen"

    def handle(group, i):
        path = paths[i]
        sched = tuple(proc - 1 for _, proc, _ in path)
        run = group.run(n, sched, env.fresh, env.observe, strict=True)
        verdict = judge(n, run, env.pre) if run.status == "complete" else "incomplete"
        last = path[-1][2] if path else info["init"]
        ids = [last[idvar][q] for q in range(n) if last["pc"][q] == "done"]
        model_fails = any(x != "done" for x in last["pc"]) or len(set(ids)) < len(ids)
        results[i] = (conform(model, n, path, run), len(run.steps), model_fails, verdict is not None)
        return []

    errs = env.pool.map_dynamic(list(range(len(paths))), handle)
    for e in errs:
        acc.harness_error("TLC N=%d replay: %s" % (n, e))
    tally = {"conform": 0, "shape": 0, "diverge": 0}
    first = {}
    agree = 0
    mfail = 0
    for i in sorted(results):
        (res, detail), nsteps, model_fails, impl_fails = results[i]
        tally[res] += 1
        first.setdefault(res, detail)
        acc.traces += 1
        acc.transitions += nsteps
        if res == "conform":
            mfail += model_fails
            agree += (model_fails == impl_fails)
    acc.count("tlc_paths_replayed", len(results))
    acc.count("tlc_paths_conform", tally["conform"])
    acc.count("tlc_paths_shape_mismatch", tally["shape"])
    acc.count("tlc_paths_diverged", tally["diverge"])
    acc.note(head + "; replay on the workers: %d conform, %d shape mismatch, %d diverge; on the conforming paths the model "
             "predicts a failed constructor or a duplicate id on %d, model and implementation verdict agree on %d/%d"
             % (tally["conform"], tally["shape"], tally["diverge"], mfail, agree, tally["conform"]))
    if tally["shape"]:
        acc.note("TLC N=%d: under interleaving the implementation does not keep the shape of %s (%s); the model does not "
                 "describe it, the verdict rests on the direct exploration only" % (n, model, first["shape"]))
    if tally["diverge"]:
        acc.note("TLC N=%d: %s and the implementation diverge (%s); the model is stale or too coarse, the verdict rests on "
                 "the direct exploration only" % (n, model, first["diverge"]))
    return acc


def run_shard(ctx, shard):
    try:
        if shard[0] == "explore":
            return run_explore(ctx, shard[1])
        if shard[0] in ("released", "emptied"):
            return run_explore(ctx, shard[1], shard[0])
        if shard[0] == "adder":
            return run_adder(ctx, shard[1])
        return run_tlc_shard(ctx, shard[1])
    except BaseException:
        _close_env()
        raise


def finalize(ctx, acc):
    _close_env()
    s2, s3 = acc.extra.get("schedules_N2", 0), acc.extra.get("schedules_N3", 0)
    if not acc.harness_errors and not acc.capped:
        if s2 < 2 and not any(k.startswith("N=2:deadlock") for k in acc.viol):
            acc.harness_error("N=2: fewer than two complete schedules (%d): the space degenerated" % s2)
        if s3 < 6 and not any(k.startswith("N=3:deadlock") for k in acc.viol):
            acc.harness_error("N=3: fewer than six complete schedules (%d): the space degenerated" % s3)
        r2 = acc.extra.get("schedules_released_N2", 0)
        if r2 < 2 and not any(k.startswith("N=2:released-layout:deadlock") for k in acc.viol):
            acc.harness_error("released layout, N=2: fewer than two complete schedules (%d): the space degenerated" % r2)
        e2 = acc.extra.get("schedules_emptied_N2", 0)
        if e2 < 2 and not any(k.startswith("N=2:emptied-layout:deadlock") for k in acc.viol):
            acc.harness_error("emptied table, N=2: fewer than two complete schedules (%d): the space degenerated" % e2)
    acc.note("initial states: 'warmed' = database created by one Session() of the code under test (TLC cross-check runs on "
             "this one); 'released' = database built by the check with the fixed released DDL (table session(id), rows %r), "
             "prologue is a step of its own and CREATE/ALTER/DROP on session are scheduling points; 'emptied' = the warmed "
             "database with every session row deleted (the first sessions of a database: rules that differ on an empty "
             "table)" % (RELEASED_ROWS,))
    if acc.extra.get("tlc_paths_replayed", 0) and acc.extra.get("tlc_paths_conform", 0) == acc.extra.get("tlc_paths_replayed"):
        for n in (2, 3):
            a, b = acc.extra.get("distinct_states_N%d" % n), acc.extra.get("tlc_states_N%d" % n)
            if a is not None and b is not None:
                acc.note("N=%d: %d distinct controller states on the implementation, %d states in the TLC graph%s"
                         % (n, a, b, "" if a == b else " (differ: model and harness abstract the state differently)"))


def replay(ctx, w):
    from mc import sched
    n = int(w["n"])
    prefix = tuple(int(x) - 1 for x in w["schedule"])
    env = Env(ctx, 1, size=n)
    try:
        g = env.pool.groups[0]
        init = env.inits[w.get("init", "warmed")]
        kw = dict(lazy=init.lazy, long_pause=init.long_pause)
        if w.get("expect") == "deadlock":
            base = g.run(n, prefix, init.fresh, env.observe, strict=True, **kw)
            if base.status != "incomplete":
                return None
            el = [x for x in range(n) if not (base.final[x])]
            for x in el:
                r = g.run(n, prefix + (x,), init.fresh, env.observe, strict=True, **kw)
                if r.status != "infeasible":
                    return None
            return "N=%d: after %r every unfinished constructor is blocked by a paused one" % (n, list(w["schedule"]))
        run = g.run(n, prefix, init.fresh, env.observe, strict=False, **kw)
        if run.status != "complete":
            raise sched.SchedError("witness schedule %r cannot be executed: %s" % (w["schedule"], run.status))
        if run.schedule[:len(prefix)] != prefix:
            raise sched.SchedError("witness schedule %r was not followed" % (w["schedule"],))
        if init.adder:
            if w.get("expect") == "open-txn":
                bad = [s.ev.get("kind") for s in run.steps if s.w == 0 and s.ev["ev"] == "point" and s.ev.get("kind") in ("P", "X")
                       and isinstance(s.ev.get("info"), dict) and s.ev["info"].get("in_write_txn")]
                return "adder paused at %s inside an open write transaction" % bad if bad else None
            v = judge_adder(n, run)
            return v and v[1]
        return judge(n, run, init.pre)
    finally:
        env.close()
