"""C10  Basic blocks partition each method at every control-flow boundary   (engine E2: bounded structure enumeration).

Space: every method built from a skeleton of <= 3 (thorough: <= 4) slots over {const/4, div-int, return-void, throw,
goto->t, if-eqz->t, packed-switch->{t,u}, sparse-switch->{t,u}} with t <= u over ALL slots (a final return-void is
appended; switch payloads 4-aligned behind it), without try ranges; plus try-bearing plans: every skeleton of <= 2 slots
with every table of 0..2 disjoint try ranges over slot intervals [i,j], handler addresses over all slots, typed /
catch-all / both, shared encoded handler; 3-slot skeletons over {div-int, return, goto, if, packed-switch} with every
single try range (thorough: full alphabet x single tries, {div-int, goto, if} x all tables; see space()).
goto is encoded 10t forward, goto/16 backward, goto/32 to itself, so all three encodings occur.
Plus every method of the shipped DEX files (quick: classes.dex), instruction list by the independent reader
gen/dexread + decoder gen/dalvik.
Additional plans (checks/cfgcommon.extra_plans): two packed or two sparse switches sharing ONE payload (every ordered
pair, kept when the inherited relative targets land on instruction starts); the payload tables in the MIDDLE of the code
(slot 0, goto/16 over the tables, slot 1...); and a bounded HISTORY family: analyse, apply ONE edit of the instruction
list through EncodedMethod.set_instructions() (prepend 1 nop, prepend 2 nops, insert a nop behind the final return,
replace the list by itself), build a NEW MethodAnalysis of the same EncodedMethod and judge it against the reference
decoded from the edited bytes (keys end in ":after:set_instructions"; histories in which a switch offset becomes
2 mod 4 are counted, not judged: misaligned payloads are not well-formed).
No-op history (plans again-*): the SAME parsed code analysed again without any edit -- a stand-alone MethodAnalysis(vm, em)
and a second Analysis(vm) over the same DEX object -- judged exactly like the first analysis (keys end in
":second-analysis"); every shipped method is likewise analysed twice.
Each generated method is serialised by gen/dexgen (256 static methods per DEX), loaded with DEX() + Analysis() and the
basic blocks are compared with ref/cfg.judge_c10:
  blocks contiguous, disjoint, ordered, covering [0, code size) and yielding exactly the instructions there;
  every branch target, switch target, try start and handler address begins a block;
  only the last instruction of a block is goto/if/switch/return/throw.
Nothing is demanded about how nop spacers / payload pseudo-instructions are grouped (they must be covered).
"""
from checks import cfgcommon as CC
from ref import cfg as R

HISTORY_SKIP_UNALIGNED = True
ALT_TOPICS = ("blocks",)
PROPERTY = "C10"
LEVEL = "exploration"
RULE = ("all skeletons of <=3 (thorough <=4) slots over an 8-kind slot alphabet with branch/switch targets over all slots; "
        "try-bearing plans = skeletons x all tables of 0..2 disjoint try ranges x handler slots x typed/catch-all; all "
        "methods of the shipped DEX files.  Non-trivial = more than one basic block or a try range; distinct by "
        "construction (enumeration index) / by (file, class, method)")
ASSUMPTIONS = ["trusted: gen/dalvik (opcode table, assembler, decoder), gen/dexgen, gen/dexread, ref/cfg.py; the generator's "
               "own instruction list is cross-checked against the reference decoder for every method",
               "if-eqz with offset 0 (branch to itself) is rejected by the Dalvik verifier but decodable; it is part of the "
               "space ('self') and judged like any other target",
               "grouping of nop spacers and payload pseudo-instructions into blocks is not judged beyond coverage"]
MANIFEST = {
    "engine": "E2-structures",
    "technique": "exhaustive enumeration of small Dalvik methods against a reference leader/partition model",
    "text": "Every method a small slot grammar can produce (all forward/backward/self/first-instruction targets, duplicate "
            "switch targets, coinciding branch sides, all try-range/handler placements up to the bound) is assembled by an "
            "independent writer, analysed by the real code and its basic blocks are compared with the partition rules "
            "computed from the generating model; the shipped DEX files are swept completely.  Complete for the stated bound.",
    "note": "Trusted: gen/dalvik, gen/dexgen, gen/dexread, ref/cfg.py.  Methods longer than the bound are covered only "
            "through the shipped files.",
}


def plans(ctx):
    p = []
    top = 4 if ctx.thorough else 3
    for n in range(0, top + 1):
        p.append({"id": "plain-n%d" % n, "n": n, "kinds": "PTRXGIKS"})
    p.append({"id": "try-n1", "n": 1, "kinds": "PTRXGIKS", "tries": (2, True)})
    p.append({"id": "try-n2", "n": 2, "kinds": "PTRXGIKS", "tries": (2, True)})
    if ctx.thorough:
        p.append({"id": "try1-n3", "n": 3, "kinds": "PTRXGIKS", "tries": (1, False)})
        p.append({"id": "try2-n3-TGI", "n": 3, "kinds": "TGI", "tries": (2, True)})
    else:
        p.append({"id": "try1-n3-TRGIK", "n": 3, "kinds": "TRGIK", "tries": (1, False)})
    return p + CC.extra_plans(ctx)


def space(ctx):
    return CC.space_common(ctx, plans(ctx))


def shards(ctx):
    return CC.shards_common(ctx, plans(ctx))


def judge(acc, rm, obs, layout, ma=None, gen=True):
    v = R.judge_c10(rm, obs)
    nlead = len(R.leader_reasons(rm))
    acc.count("required_block_starts_checked", nlead)
    acc.count("blocks_checked", len(obs["blocks"]))
    return v


def run_shard(ctx, shard):
    return CC.run_shard_common(__import__("checks.c10", fromlist=["x"]), ctx, shard)


def replay(ctx, w):
    return CC.replay_common(__import__("checks.c10", fromlist=["x"]), ctx, w)


def finalize(ctx, acc):
    need = ["methods_with_back-edge", "methods_with_switch", "methods_with_try", "methods_with_self-edge",
            "methods_with_dup-switch-target", "methods_with_coincide", "methods_with_to-first", "shipped_methods"]
    for k in need:
        if not acc.extra.get(k):
            acc.harness_error("vacuity: counter %s is zero" % k)
    if len(acc.outcomes) < 50:
        acc.harness_error("vacuity: only %d distinct block structures observed" % len(acc.outcomes))
