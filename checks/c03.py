"""C03  LEB128 integers decode to the value their bytes encode  (engine E1: finite-domain product).

Space (decode): every LEB128 byte sequence of k = 1, 2, 3 septets exhaustively (128 + 2^14 + 2^21; thorough
adds all 2^28 four-septet sequences), four- and five-septet sequences over the septet alphabet SEPT per position,
the five-byte forms with every possible 5th byte (0..255, terminated or not), each followed by a sentinel tail
so that 'bytes consumed' is observable.  Space (encode): every value in [0, 2^16), 2^k+d (k<=32, |d|<=2),
their negatives (signed), and every composition of the septet alphabet; uleb128p1 with -1.
Histories: 8 orders of 'first function then second function on the same value' (unsigned / +1 / signed, encoders and decoders)
over 0..319, 2^k+-1 and their negatives, each order in its own fresh interpreter (state one function leaves for another).
Oracle: the arithmetic definition of the DEX spec (ref below).  Fifth bytes carrying bits beyond 32 that are not plain sign
copies are outside the DEX value domain: only 'consumes exactly 5 bytes and returns' is required there.  A signed fifth byte
00..0f (value bits 28..31 only) IS in the domain: the result is that 32-bit pattern read as a signed integer.
"""
import io
import itertools

from mc.core import Acc

PROPERTY = "C03"
LEVEL = "exploration"
RULE = ("all LEB128 byte sequences of 1..3 septets (thorough: 1..4) exhaustively, 4-5 septets over a 9-value septet "
        "alphabet, every 5th byte 0..255; encode/decode round trip of all 16-bit values, 2^k+d, septet compositions; "
        "non-trivial = multi-byte encoding or negative value; distinct by construction (enumeration) / by value")
ASSUMPTIONS = ["5th LEB128 byte with bits beyond 2^32 is outside the DEX value domain (not judged beyond consumption)"]

SEPT = [0x00, 0x01, 0x3f, 0x40, 0x7f, 0x2a, 0x55, 0x08, 0x0f]
TAIL = b"\xa5\x5a\xff"
TAILS = [b"", b"\x05", b"\xa5\x5a", TAIL]      # every distance 0..3 to the end of the buffer
TAILS_3 = [b"", TAIL]                            # the exhaustive 3-septet shards use both extremes
MANIFEST = {
    "engine": "E1-product",
    "technique": "exhaustive finite-domain enumeration against an arithmetic reference model",
    "text": "Every LEB128 byte string of 1-3 septets (thorough: 1-4), boundary products for 4-5 septets, every 5th byte, and "
            "the encode/decode round trip over all 16-bit and boundary 32-bit values are run through the real functions and "
            "compared with the DEX specification's arithmetic definition; complete for the stated space.",
    "note": "Trusted: the 20-line reference decoder in checks/c03.py. 5th bytes carrying bits beyond 2^32 are not judged beyond byte consumption.",
}


def _cm():
    from androguard.core import dex
    cm = dex.ClassManager(None)
    cm.packer = dex.DalvikPacker(0x12345678)
    return dex, cm


def ref_uleb(septs):
    v = 0
    for i, s in enumerate(septs):
        v |= (s & 0x7f) << (7 * i)
    return v


def ref_sleb(septs):
    v = ref_uleb(septs)
    bits = 7 * len(septs)
    if bits >= 35:
        v &= 0xffffffff
        return v - (1 << 32) if v & 0x80000000 else v
    if v & (1 << (bits - 1)):
        v -= 1 << bits
    return v


def encode_seq(septs, last_cont=False):
    b = bytearray()
    for i, s in enumerate(septs):
        cont = 0x80 if (i < len(septs) - 1 or last_cont) else 0
        b.append((s & 0x7f) | cont)
    return bytes(b)


def in_domain_u(septs, raw5=None):
    if len(septs) < 5:
        return True
    return raw5 <= 0x0f


def in_domain_s(septs, raw5=None):
    if len(septs) < 5:
        return True
    if raw5 & 0x80:
        return False
    if raw5 <= 0x0f:
        # only value bits 28..31 are present: the 32-bit pattern is fully determined (0x08..0x0f: bit 31 set, i.e. the negative
        # number a 32-bit reader such as libdex yields for 'ff ff ff ff 0f' = -1), although the redundant sign copies are absent
        return True
    hi = (raw5 >> 3) & 0xf     # otherwise bits 3..6 must all equal the sign bit (bit 3 -> value bit 31)
    return hi == 0xf


def check_decode(dex, cm, raw, septs, acc, full_tails=False):
    """raw: the encoded bytes; septs: payload septets (len 5 => raw[4] is the full fifth byte)."""
    k = len(raw)
    raw5 = raw[4] if k == 5 else None
    for fn, name, ref, dom in ((dex.readuleb128, "uleb", ref_uleb, in_domain_u),
                               (dex.readsleb128, "sleb", ref_sleb, in_domain_s),
                               (dex.readuleb128p1, "ulebp1", lambda s: ref_uleb(s) - 1, in_domain_u)):
      # the number is followed by 0..3 more bytes (distance to the end of the buffer: a reader that looks ahead must not
      # misplace the cursor when fewer bytes than its look-ahead remain); a second number is then read from the same buffer
      for tail in (TAILS if (k != 3 or full_tails) else TAILS_3):
        f = io.BytesIO(raw + tail)
        try:
            got = fn(cm, f)
            used = f.tell()
        except Exception as e:          # noqa
            got, used = "EXC:%s" % type(e).__name__, -1
        exact = dom(septs, raw5)
        want = ref(septs)
        bad = used != k or (exact and got != want) or (not exact and not isinstance(got, int))
        if bad:
            acc.violation("decode:%s:len%d%s%s" % (name, k, "" if exact else ":outofdomain", "" if len(tail) == 3 else ":%d-bytes-before-end" % len(tail)),
                          {"op": "decode", "fn": name, "bytes": raw.hex(), "tail": tail.hex()},
                          "%s(%s) followed by %d more bytes -> %r consumed %r; expected %r consumed %d" % (name, raw.hex(), len(tail), got, used, want, k))
        acc.n += 1
    return


def check_buffered(dex, cm, raw, septs, pos, acc):
    """the number sits at byte offset `pos` of a stream read through io.BufferedReader; a first read at offset 0 fills the
    8 KiB buffer, then the reader seeks to pos; after the number a second (3-septet) number must decode from the same stream"""
    k = len(raw)
    second = bytes([0xac, 0x82, 0x05])          # uleb 82220 / sleb 82220
    data = b"\x00" * pos + raw + second + b"\x00" * 16
    for fn, name, ref in ((dex.readuleb128, "uleb", ref_uleb), (dex.readsleb128, "sleb", ref_sleb), (dex.readuleb128p1, "ulebp1", lambda s: ref_uleb(s) - 1)):
        if k == 5 and name == "sleb" and not in_domain_s(septs, raw[4]):
            continue
        f = io.BufferedReader(io.BytesIO(data))
        try:
            f.read(1)
            f.seek(pos)
            got = fn(cm, f)
            used = f.tell() - pos
            got2 = dex.readuleb128(cm, f)
        except Exception as e:      # noqa
            got, used, got2 = "EXC:%s" % type(e).__name__, -1, None
        want = ref(septs)
        acc.n += 1
        if got != want or used != k or got2 != 82220:
            acc.violation("decode:%s:len%d:buffered-reader-chunk-boundary" % (name, k),
                          {"op": "buffered", "bytes": raw.hex(), "pos": pos},
                          "%s(%s) at stream offset %d of a BufferedReader -> %r consumed %r, next number %r; expected %r consumed %d, next 82220"
                          % (name, raw.hex(), pos, got, used, got2, want, k))
        acc.nt.add(("b", name, raw, pos).__hash__())


def shards(ctx):
    s = [("dec12",)]
    s += [("dec3", a) for a in range(128)]
    if ctx.thorough:
        s += [("dec4", a, b) for a in range(128) for b in range(0, 128, 8)]
    s += [("dec45", a) for a in SEPT]
    s += [("fifth", a) for a in range(0, 256, 16)]
    s += [("buffered", k) for k in range(1, 6)]
    s += [("enc16", lo) for lo in range(0, 1 << 16, 1 << 12)]
    s += [("encb",), ("encsept",)]
    s += [("hist", i) for i in range(len(HIST_ORDERS))]
    return s


def _enc_cases(kind, lo=0):
    if kind == "enc16":
        for v in range(lo, lo + (1 << 12)):
            yield v
            yield -v
            yield (1 << 32) - 1 - v
            yield -(1 << 31) + v
            yield (1 << 31) - 1 - v
    elif kind == "encb":
        for k in range(0, 33):
            for d in (-2, -1, 0, 1, 2):
                yield (1 << k) + d
                yield -((1 << k) + d)
        yield -1
    else:
        for n in range(1, 6):
            for septs in itertools.product(SEPT, repeat=n):
                if n == 5 and septs[4] > 0x0f:
                    continue
                yield ref_uleb(septs)
                yield ref_sleb(septs)


def check_encode(dex, cm, v, acc):
    from_ref = None
    # unsigned
    if 0 <= v <= 0xffffffff:
        acc.n += 1
        try:
            b = bytes(dex.writeuleb128(cm, v))
            ok_form = 1 <= len(b) <= 5 and all(x & 0x80 for x in b[:-1]) and not b[-1] & 0x80
            r_ref = ref_uleb([x & 0x7f for x in b]) if ok_form else None
            f = io.BytesIO(b + TAIL)
            r = dex.readuleb128(cm, f)
            used = f.tell()
            bad = (not ok_form) or r_ref != v or r != v or used != len(b)
            msg = "writeuleb128(%d)=%s form_ok=%s ref_decode=%r readuleb128=%r consumed=%d" % (v, b.hex(), ok_form, r_ref, r, used)
        except Exception as e:       # noqa
            bad, msg = True, "uleb round trip of %d raised %s: %s" % (v, type(e).__name__, e)
        if bad:
            acc.violation("roundtrip:uleb:%dbit" % v.bit_length(), {"op": "rt", "fn": "uleb", "value": v}, msg)
        if len(b) > 1:
            acc.nt.add(("u", v).__hash__())
    # uleb128p1: value v-1 stored as v
    if -1 <= v <= 0xfffffffe:
        acc.n += 1
        try:
            b = bytes(dex.writeuleb128(cm, v + 1))
            f = io.BytesIO(b + TAIL)
            r = dex.readuleb128p1(cm, f)
            bad = r != v or f.tell() != len(b)
            msg = "uleb128p1: write(%d+1)=%s read back %r" % (v, b.hex(), r)
        except Exception as e:       # noqa
            bad, msg = True, "uleb128p1 round trip of %d raised %s: %s" % (v, type(e).__name__, e)
        if bad:
            acc.violation("roundtrip:ulebp1:%dbit" % (v + 1).bit_length(), {"op": "rt", "fn": "ulebp1", "value": v}, msg)
    # signed
    if -(1 << 31) <= v <= (1 << 31) - 1:
        acc.n += 1
        try:
            b = bytes(dex.writesleb128(cm, v))
            ok_form = 1 <= len(b) <= 5 and all(x & 0x80 for x in b[:-1]) and not b[-1] & 0x80
            r_ref = ref_sleb([x & 0x7f for x in b]) if ok_form else None
            f = io.BytesIO(b + TAIL)
            r = dex.readsleb128(cm, f)
            used = f.tell()
            bad = (not ok_form) or r_ref != v or r != v or used != len(b)
            msg = "writesleb128(%d)=%s form_ok=%s ref_decode=%r readsleb128=%r consumed=%d" % (v, b.hex(), ok_form, r_ref, r, used)
        except Exception as e:       # noqa
            bad, msg = True, "sleb round trip of %d raised %s: %s" % (v, type(e).__name__, e)
        if bad:
            acc.violation("roundtrip:sleb:%s%dbit" % ("neg" if v < 0 else "", abs(v).bit_length()),
                          {"op": "rt", "fn": "sleb", "value": v}, msg)
        if v < 0 or len(b) > 1:
            acc.nt.add(("s", v).__hash__())


# ---- two-step histories in a pristine interpreter: the first call on a value is made through one function, the second through
#      another (encoders: unsigned / unsigned+1 / signed; decoders likewise on the same bytes).  State that one function leaves
#      behind for another (a shared table of short encodings, a decode cache keyed by the bytes) shows only in a process where the
#      second function has not seen the value before, hence one fresh interpreter per ORDER; replay() runs the one history.
HIST_ORDERS = [("wuleb", "wsleb"), ("wsleb", "wuleb"), ("wulebp1", "wsleb"), ("wsleb", "wulebp1"),
               ("ruleb", "rsleb"), ("rsleb", "ruleb"), ("rulebp1", "rsleb"), ("rsleb", "rulebp1")]


def hist_values():
    vs = list(range(0, 320)) + [(1 << k) + d for k in range(9, 32) for d in (-1, 0, 1)]
    return vs + [-v for v in vs if v]


def _hist_step(dex, cm, fn, v):
    """one call; -> None | message.  Encoders are judged by decoding their bytes with the reference; decoders are applied to the
    canonical unsigned encoding of v & 0xffffffff (both readers accept any bytes)."""
    if fn in ("wuleb", "wulebp1", "wsleb"):
        if fn == "wuleb":
            if not 0 <= v <= 0xffffffff:
                return None
            b = bytes(dex.writeuleb128(cm, v)); got = ref_uleb([x & 0x7f for x in b])
        elif fn == "wulebp1":
            if not -1 <= v <= 0xfffffffe:
                return None
            b = bytes(dex.writeuleb128(cm, v + 1)); got = ref_uleb([x & 0x7f for x in b]) - 1
        else:
            if not -(1 << 31) <= v < (1 << 31):
                return None
            b = bytes(dex.writesleb128(cm, v)); got = ref_sleb([x & 0x7f for x in b])
        ok_form = 1 <= len(b) <= 5 and all(x & 0x80 for x in b[:-1]) and not b[-1] & 0x80
        return None if (ok_form and got == v) else "%s(%d) = %s which encodes %r" % (fn, v, b.hex(), got)
    u = v & 0xffffffff
    septs = []
    while True:
        septs.append(u & 0x7f)
        u >>= 7
        if not u:
            break
    if len(septs) == 5 and septs[4] > 0x0f:
        return None
    raw = encode_seq(septs)
    f = io.BytesIO(raw + TAIL)
    got = {"ruleb": dex.readuleb128, "rulebp1": dex.readuleb128p1, "rsleb": dex.readsleb128}[fn](cm, f)
    want = {"ruleb": ref_uleb(septs), "rulebp1": ref_uleb(septs) - 1, "rsleb": ref_sleb(septs)}[fn]
    return None if (got == want and f.tell() == len(raw)) else "%s(%s) = %r consumed %d, expected %r consumed %d" % (fn, raw.hex(), got, f.tell(), want, len(raw))


def hist_one(dex, cm, order, v):
    for i, fn in enumerate(order):
        try:
            m = _hist_step(dex, cm, fn, v)
        except Exception as e:       # noqa
            m = "%s(%d) raised %s: %s" % (fn, v, type(e).__name__, e)
        if m:
            return "history %s then %s on value %d: step %d: %s" % (order[0], order[1], v, i + 1, m)
    return None


def hist_run(oi):
    """runs in a fresh interpreter: every value's first contact with each function happens in the given order"""
    dex, cm = _cm()
    order = HIST_ORDERS[oi]
    out = []
    # the '+1' forms pass v+1 to the function: only even values, so that no two histories of one run touch the same argument
    vals = [v for v in hist_values() if not (("wulebp1" in order or "rulebp1" in order) and v % 2)]
    for v in vals:
        m = hist_one(dex, cm, order, v)
        if m:
            out.append([v, m])
    return {"n": len(vals), "bad": out}


def run_shard(ctx, shard):
    dex, cm = _cm()
    acc = Acc()
    kind = shard[0]
    if kind == "hist":
        import json
        import os
        import subprocess
        import sys
        oi = shard[1]
        root = os.path.dirname(os.path.dirname(os.path.abspath(__file__)))
        code = "import sys,json; sys.path[:0]=[%r,%r]; from checks import c03; print('HIST'+json.dumps(c03.hist_run(%d)))" % (ctx.repo, root, oi)
        p = subprocess.run([sys.executable, "-c", code], capture_output=True, text=True, env=dict(os.environ, PYTHONHASHSEED="0"))
        line = [l for l in p.stdout.splitlines() if l.startswith("HIST")]
        if p.returncode != 0 or not line:
            acc.harness_error("history interpreter for order %r failed: %s" % (HIST_ORDERS[oi], (p.stderr or p.stdout)[-400:]))
            return acc
        res = json.loads(line[0][4:])
        acc.n += res["n"]
        acc.nt_disjoint += res["n"]
        acc.count("two_step_histories", res["n"])
        for v, m in res["bad"]:
            acc.violation("history:%s-then-%s:%s" % (HIST_ORDERS[oi][0], HIST_ORDERS[oi][1], "single-byte" if -64 <= v < 128 else "multi-byte"),
                          {"op": "hist", "order": oi, "value": v}, m)
        acc.outcomes.add(("hist", oi).__hash__())
        return acc
    if kind == "dec12":
        for a in range(128):
            check_decode(dex, cm, encode_seq([a]), [a], acc)
            for b in range(128):
                check_decode(dex, cm, encode_seq([a, b]), [a, b], acc)
                acc.nt_disjoint += 1
        acc.sample({"decode": encode_seq([0x7f, 0x40]).hex()})
    elif kind == "dec3":
        a = shard[1]
        for b in range(128):
            for c in range(128):
                s = [a, b, c]
                check_decode(dex, cm, encode_seq(s), s, acc)
        acc.nt_disjoint += 128 * 128
        if a == 1:
            acc.sample({"decode": encode_seq([1, 0, 0x40]).hex(), "note": "non-canonical/negative 3-byte form"})
    elif kind == "dec4":
        a, b0 = shard[1], shard[2]
        for b in range(b0, b0 + 8):
            for c in range(128):
                for d in range(128):
                    s = [a, b, c, d]
                    check_decode(dex, cm, encode_seq(s), s, acc)
        acc.nt_disjoint += 8 * 128 * 128
    elif kind == "dec45":
        a = shard[1]
        for n in (4, 5):
            for rest in itertools.product(SEPT, repeat=n - 1):
                s = [a] + list(rest)
                check_decode(dex, cm, encode_seq(s), s, acc)
                acc.nt.add(("d", tuple(s)).__hash__())
    elif kind == "fifth":
        for f5 in range(shard[1], shard[1] + 16):
            for pre in itertools.product([0x00, 0x7f, 0x55, 0x01], repeat=4):
                raw = encode_seq(list(pre), last_cont=True) + bytes([f5])
                check_decode(dex, cm, raw, list(pre) + [f5 & 0x7f], acc)
                acc.nt.add(("5", raw).__hash__())
        acc.sample({"decode": (encode_seq([0x7f] * 4, True) + bytes([shard[1] + 15])).hex(), "note": "5-byte form, every 5th byte"})
    elif kind == "buffered":
        # the real parser reads through io.BufferedReader (8 KiB chunks): numbers of k septets over the septet alphabet placed at
        # every position around the chunk boundary, reached after a seek (history of the stream), followed by a second number
        k = shard[1]
        for septs in itertools.product(SEPT if k < 4 else SEPT[:5], repeat=k):
            if k == 5 and septs[4] > 0x0f:
                continue
            raw = encode_seq(list(septs))
            for pos in range(8192 - 7, 8192 + 2):
                check_buffered(dex, cm, raw, list(septs), pos, acc)
        acc.sample({"buffered_reader": {"septets": k, "positions": "8185..8193", "second_number_follows": True}})
    else:
        for v in _enc_cases(kind, shard[1] if len(shard) > 1 else 0):
            check_encode(dex, cm, v, acc)
        if kind == "encb":
            acc.sample({"roundtrip": [-1, -(1 << 31), (1 << 32) - 1]})
    acc.outcomes.add(kind.__hash__())
    return acc


def replay(ctx, w):
    dex, cm = _cm()
    acc = Acc()
    if w["op"] == "hist":
        return hist_one(dex, cm, HIST_ORDERS[w["order"]], w["value"])
    if w["op"] == "buffered":
        raw = bytes.fromhex(w["bytes"])
        check_buffered(dex, cm, raw, [x & 0x7f for x in raw], w["pos"], acc)
    elif w["op"] == "decode":
        raw = bytes.fromhex(w["bytes"])
        septs = [x & 0x7f for x in raw]
        check_decode(dex, cm, raw, septs, acc, full_tails=True)
    else:
        check_encode(dex, cm, w["value"], acc)
    if acc.viol:
        return "; ".join(v["msg"] for v in acc.viol.values())
    return None
