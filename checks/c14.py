"""C14  Field cross-references are recorded on the field that is accessed   (engine E2: bounded structure enumeration).

Space: the model of gen/xrefmodels.xm3 (see checks/c13.py) -- the body of A.m<k> is every sequence of <= 2 (thorough: <= 3)
items of the reference alphabet, whose field part is 8 opcodes (one per width family, each access form twice) on
{A.f own class, A.f:String (same name, other type), B.g / B.g:J other class same DEX, B.s static, Lext/E;.h external,
D.k defined in the SECOND DEX}, plus all 28
i/s get/put opcodes x 7 fields alone, and field accesses behind a mid-method switch / array-data payload -- analysed in both add
orders of the two DEX files (see _orders); and every method of the
shipped DEX files (accesses located with gen/dexread + the gen/dalvik reference sweep).
Oracle (ref/xref.py): for every access whose (class, name, type) is a field defined in the analysed files:
Analysis.get_field_analysis(encoded field) lists (method, offset) as read resp. write, the method's
get_xref_read/get_xref_write lists (field, offset), get_fields() yields every defined field exactly once.
"""
import collections

from mc.core import Acc
from checks import xref_common as C

PROPERTY = "C14"
LEVEL = "exploration"
RULE = ("every body of <= 2 (thorough <= 3) items over a 169-item reference alphabet + 160 extended single items (all 28 field "
        "opcodes), generated programs that touch the second DEX analysed with both add orders; every field access of the shipped "
        "DEX files.  Non-trivial = the body contains at least one field access; distinct by construction (sequence = index) / by "
        "(file, method, offset)")
ASSUMPTIONS = ["an access is judged only if a field with exactly that (class, name, type) is defined in the analysed files "
               "(no resolution through superclasses: the statement speaks of the target field being defined)",
               "the statement demands presence, not exactness: unexplained extra entries on a FieldAnalysis are not judged",
               "the method-side entry may carry the EncodedField or a FieldAnalysis; it is matched by (class, name, type) and offset",
               "shipped corpus = tests/data/APK/*.dex and the DEX files of hello-world.apk, TestActivity.apk, multidex.apk",
               "trusted: gen/dexgen.py, gen/dexread.py, gen/dalvik.py, ref/xref.py"]
MANIFEST = {
    "engine": "E2-structures",
    "technique": "exhaustive enumeration of short field-access sequences in generated two-DEX models, plus a reference sweep of the shipped DEX files",
    "text": "Every method body of up to 2 (thorough: 3) instructions over all i/s get/put width families and over own-class, "
            "other-class, static, external and other-DEX target fields is written by an independent DEX writer and analysed in "
            "both add orders; for each access the owner field's FieldAnalysis, the accessing method's list and the uniqueness of "
            "FieldAnalysis objects are compared with the relation derived from the model.  All field accesses of the shipped DEX "
            "files are judged the same way against an independent reader + decoder.  Complete for the stated bound.",
    "note": "Trusted: gen/dexgen.py, gen/dexread.py, gen/dalvik.py, ref/xref.py. Fields reached only through a subclass name "
            "(no field of that exact class/name/type defined) are not judged.",
}


def space(ctx):
    s = C.xm3_space(ctx)
    s["add_orders"] = ["[A,B] then [D]", "[D] then [A,B] (bodies of length <= 1, bodies touching D.k, all length-3 batches)"]
    s["shipped"] = [n for n, _ in C.shipped_groups(ctx.repo)]
    return s


def shards(ctx):
    import androguard.core.analysis.analysis  # noqa  (warm the import before the pool forks)
    C.freeze_heap()
    s = C.xm3_shards(ctx)
    for gi, (name, members) in enumerate(C.shipped_groups(ctx.repo)):
        s.append(("shipped", name, False))
        if len(members) > 1:
            s.append(("shipped", name, True))
    return s


def _relevant(item):
    return item[0][:4] in ("iget", "iput", "sget", "sput")


def _orders(seqs):
    """Both add orders for every body that touches the second DEX (a D.k item), for every body of length <= 1 and for every
    batch; D.r -> A.f (fixed body) crosses the DEX boundary in every model, in whichever order it is analysed."""
    from gen import xrefmodels as X
    if len(seqs) > 1 or len(seqs[0]) <= 1 or any(X.item_of(c)[1] == X.FIELDS["D.k"] for c in seqs[0]):
        return (False, True)
    return (False,)


def _outcome(run, k):
    ma = run.ma(run.gen(k))
    if ma is None:
        return None
    o = [("mr", C.ftrip(f), off) for _, f, off in ma.get_xref_read()] + [("mw", C.ftrip(f), off) for _, f, off in ma.get_xref_write()]
    for fa in run.dx.get_fields():
        o += [("fr", C.ftrip(fa), off) for _, m, off in fa.get_xref_read(with_offset=True) if m is ma]
        o += [("fw", C.ftrip(fa), off) for _, m, off in fa.get_xref_write(with_offset=True) if m is ma]
    return tuple(sorted(o))


def _shipped(ctx, name, reverse, stats=None):
    from ref import xref as RX
    members = dict(C.shipped_groups(ctx.repo))[name]
    raws = [r for _, r in members]
    if reverse:
        raws.reverse()
    exp = RX.from_bytes(raws)
    run = C.Run(raws)
    return C.judge_c14(exp, run, stats), exp


def run_shard(ctx, shard):
    acc = Acc()
    if shard[0] != "shipped":
        C.explore_xm3(ctx, shard, C.judge_c14, acc, _orders, _relevant, _outcome)
        return acc
    stats = collections.Counter()
    res, exp = _shipped(ctx, shard[1], shard[2], stats)
    n = sum(v for k, v in stats.items() if k.startswith("where:"))
    acc.n += n
    acc.nt_disjoint += n
    acc.count("shipped_files_analysed", 1)
    acc.count("shipped_accesses_judged", n)
    acc.count("shipped_defined_fields", len(exp.fields))
    for k, v in stats.items():
        acc.count("shipped:" + k, v)
    for key, msg, _ in res:
        acc.violation(key, {"shipped": shard[1], "reverse": shard[2], "key": key}, "[%s] %s" % (shard[1], msg))
        acc.count("shipped_violations:" + key)
    acc.outcomes.add(hash(("shipped", shard[1], len(res))))
    return acc


def replay(ctx, w):
    if "shipped" in w:
        res, _ = _shipped(ctx, w["shipped"], w.get("reverse", False))
        msgs = [m for k, m, _ in res if w.get("key") in (None, k)]
        return ("%d violations, first: %s" % (len(msgs), msgs[0])) if msgs else None
    return C.replay_xm3(w, C.judge_c14)


def finalize(ctx, acc):
    x = acc.extra
    from gen import xrefmodels as X
    missing = [op for op in X.FIELD_OPS_ALL if not x.get("access:" + op)]
    missing += [k for k in ("where:own-class", "where:other-class", "where:cross-dex", "where:same-name-other-type",
                            "where:after-payload", "shipped_accesses_judged") if not x.get(k)]
    if missing:
        acc.harness_error("vacuity: never exercised: %r" % missing)
    if len(acc.outcomes) < (40 if acc.n > 5000 else 10):
        acc.harness_error("vacuity: only %d distinct field-xref observations over %d bodies" % (len(acc.outcomes), acc.n))
