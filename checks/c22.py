"""C22  Decompilation output is deterministic  (engine E6: nondeterminism-choice exploration + E3: history search).

The DAD decompiler keeps Node / Interval / IRForm objects in `set`s.  None of these classes defines `__hash__`
or `__eq__`, so a set of them iterates in *address* order (object.__hash__ = address >> 4, rotated): the one hidden
source of nondeterminism.  The harness takes ownership of it: it installs (from here, never in /repo)
`__new__`/`__hash__` on exactly these three base classes so that the k-th object created while one method is
decompiled hashes to h(k), h chosen by the explorer.  Every explored h is injective into [0, 2^24), so it is the
hash image of *some* placement of the objects at distinct 16-byte aligned addresses; the real CPython set/dict
then produces the real iteration order for that placement: nothing is abstracted, no false alarms.  int / str
hashing is left alone (ints hash to themselves; strings are covered by enumerated PYTHONHASHSEEDs in child
processes).

Corpus: every method of the shipped DEX files (DEXES) and a GENERATED DEX ("generated", built in memory with
gen/dalvik + gen/dexgen): the structured tier-C programs of checks/c21.py (ifs, short circuits, loops, switches;
quick catalogue, 729 methods) and a nested-loop family: every nesting of two loops over the kinds {while, do-while,
while(true)+breaks, two back edges (continue), loop-and-a-half} x extra back edges from inside the inner loop to
the OUTER header {none, from a conditional block, from a statement block, both} x break out of both loops {0,1}
(200 methods), and sparse/packed switches whose case keys jump to the block following the switch ("case 20:
default:").  Shipped code has hardly any outer header with several back edges leaving the inner interval, which
is where Interval.compute_end / the derived sequence depend on node order.  Generated methods get the global
family, the hash seeds and EVERY transposition (tier-C in quick: one program per skeleton; its siblings differ only
in the comparison operator).

Parts (all deciding steps are complete enumerations of the stated spaces):
  G  every class of every corpus DEX: DvClass(...).process() under the default assignment h(k)=k and under every
     member of the global FAMILY; class text and every method text must be byte-identical to the default run.
     Before the family, three histories on the SAME parsed objects (default assignment): a new DvClass on the same
     Analysis (key repeat:..), process() called again on that same DvClass object (reprocess:..), a new DvMethod
     per method on the same MethodAnalysis after its class was decompiled (class-then-method:..); a method whose
     text is not stable under these is not judged under the family (its baseline is not a baseline).
  T  every method: baseline run records which objects are actually hashed; EVERY transposition (i j) of the
     default assignment restricted to those objects is run (deviation bound 1; bound 2 = every unordered pair of
     distinct transpositions for methods with <= T2_MAX hashed objects, thorough only).
  S  the whole corpus is re-run (default assignment, so identity order is pinned and only str hashing varies) in
     child processes with PYTHONHASHSEED = 1..7 (thorough 1..31) and compared with the in-process run (the runner
     pins PYTHONHASHSEED=0).
  H  history (B must get the text it gets when decompiled alone in a fresh process): ~60 method corpus.
     chains: a fresh child process per shard (4 A's); for every A freshly parsed DEX + Analysis, then
     A B1 A B2 A B3 ...: every ordered
     pair (A,B) and (B,A) occurs adjacently (histories share the objects, as DvMachine/DecompilerDAD users do);
     exact: fresh DEX + Analysis objects for every single ordered pair (quick: all pairs of the small-file
     methods, whose files parse in milliseconds; thorough: all pairs of the corpus and all ordered triples of
     distinct methods of a 15-method sub-corpus).  A fingerprint of all androguard.decompiler module/class
     state is taken after every history (canonical state; shows whether in-process histories start pristine).
     extreme sizes (both tiers, exact histories): four generated methods where size-gated code lives - A1/A2 with
     ~2600 / ~1300 basic blocks, B1/B2 one block with a 2560 / 1200 deep expression - every ordered pair of them and
     each before/after three ordinary methods.
     interpreter-global state (recursion limit, switch interval, warnings.filters, gc enabled, locale, cwd,
     os.environ) is compared with pristine after every step of every history: a decompilation that leaves it
     changed makes later output depend on history -> reported as history:global-state:<which> even if no text
     differs yet.
Oracle: byte-identical DvMethod.get_source() / DvClass.get_source() (statement of C22).  A method that raises
is compared by exception type + message.  replay() runs the witness in two fresh child processes and demands
the same difference from both.
"""
import hashlib
import json
import os
import re
import subprocess
import sys
import zipfile

from mc.core import Acc, VERIF, h8

PROPERTY = "C22"
LEVEL = "model_checking"
RULE = ("one case = one decompilation of one corpus method (or class) under one explorer-chosen identity-hash "
        "assignment / PYTHONHASHSEED / history prefix; non-trivial = the method has >= 2 objects that are really "
        "hashed (so some set/dict order is at stake) or a non-empty history prefix; cases are distinct by "
        "construction (enumeration of method x assignment, method x seed, ordered tuples)")
ASSUMPTIONS = [
    "identity hashes are owned for Node, Interval and IRForm subclasses only (asserted: no decompiler class defines "
    "__hash__/__eq__/__slots__/__new__; every set()/set literal in androguard/decompiler holds these, ints or strs); "
    "sets of other address-hashed objects would escape the explorer",
    "explored assignments: default, the stated global family, all single transpositions of really-hashed objects "
    "(pairs of transpositions up to the stated object bound) - not all n! layouts",
    "PYTHONHASHSEED only over the enumerated seeds",
    "history part: histories run one after another inside one child process on freshly parsed objects; that they "
    "start from a pristine process state is supported by the fingerprint of all androguard.decompiler module/class "
    "state (counted in evidence) - interpreter-internal state is not fingerprinted; replay uses really fresh processes",
    "the tree under VERIF_REPO must not change while the check runs (a change shows up as HARNESS-ERROR)",
    "DEX parsing / Analysis construction is taken as deterministic (not judged here)",
    "get_ast()/get_source_ext() are not judged, only get_source() text",
]
MANIFEST = {
    "engine": "E6-choice",
    "technique": "real decompiler run on explorer-assigned identity hashes (global family + every transposition), "
                 "enumerated hash seeds in child processes, exhaustive ordered-pair history search",
    "text": "The only hidden nondeterminism of the DAD decompiler - address order of sets of Node/Interval/IRForm "
            "objects - is put under the explorer's control by installing __hash__ on these classes; every method of "
            "the shipped DEX files and of a generated corpus (C21 tier-C programs + 200 nested-loop shapes) is decompiled under the default assignment, a family of global permutations and "
            "every single transposition of the objects it really hashes, under PYTHONHASHSEED 0..7/31, and after "
            "every other corpus method (ordered pairs); the text must be byte-identical.  Complete for the stated "
            "deviation bound; every explored order is one CPython can really produce.",
    "note": "Trusted: 40 lines of hash installation in checks/c22.py; that no other address-hashed objects sit in "
            "iterated sets (grep-audited, asserted for __hash__/__eq__).  Not all n! layouts, not all hash seeds.",
}

DEXES = ["Test.dex", "AnalysisTest.dex", "ExceptionHandling.dex", "FillArrays.dex", "InterfaceCls.dex",
         "StringTests.dex", "FieldsTest.dex", "classes.dex", "Annotation_classes.dex", "hello-world.apk"]
HIST_DEXES = DEXES[:8]            # history corpus is drawn from the small files and classes.dex
GEN = "generated"                 # generated corpus: C21's structured tier-C programs + the nested-loop family
CORPORA = DEXES + [GEN]
XT = "extreme"                    # four extreme-size generated methods; history part only
M24 = (1 << 24) - 1
T_MAX_QUICK = 16                  # quick: transpositions for methods with <= this many hashed objects
T_MAX_THOROUGH = 48
T2_MAX = 12                       # thorough: pairs of transpositions up to this many hashed objects
G_SLICE = 700                     # methods per G shard
T_SLICE = 350


# ------------------------------------------------------------------ hash ownership
class CTL:
    ctr = 0          # creation index of the next owned object (reset when a DvMethod is constructed)
    fn = None        # creation index -> hash ; None = default h(k) = k
    rec = None       # set collecting the creation indices that were really hashed, or None


_INSTALLED = False


def _all_subclasses(c):
    out = []
    for s in c.__subclasses__():
        out.append(s)
        out += _all_subclasses(s)
    return out


def install():
    """Give Node / Interval / IRForm objects an explorer-assigned hash.  Idempotent."""
    global _INSTALLED
    if _INSTALLED:
        return
    from androguard.decompiler import node, instruction, decompile
    from androguard.decompiler import basic_blocks, dataflow, graph, control_flow, writer  # noqa: load all subclasses
    bases = (node.Node, node.Interval, instruction.IRForm)
    for b in bases:
        for c in [b] + _all_subclasses(b):
            for name in ("__hash__", "__eq__", "__slots__", "__new__", "__lt__"):
                if name in c.__dict__:
                    raise AssertionError("C22 harness assumption broken: %s defines %s" % (c.__name__, name))

    def _new(cls, *a, **kw):
        o = object.__new__(cls)
        o.__dict__["_c22k"] = CTL.ctr
        CTL.ctr += 1
        return o

    def _hash(self):
        k = self._c22k
        if CTL.rec is not None:
            CTL.rec.add(k)
        f = CTL.fn
        return k if f is None else f(k)

    for b in bases:
        b.__new__ = _new
        b.__hash__ = _hash
    orig_init = decompile.DvMethod.__init__

    def _init(self, *a, **kw):
        CTL.ctr = 0
        orig_init(self, *a, **kw)

    decompile.DvMethod.__init__ = _init
    _INSTALLED = True


def _rev(k, bits):
    r = 0
    for i in range(bits):
        if k >> i & 1:
            r |= 1 << (bits - 1 - i)
    return r


def _mk_add(r):
    return lambda k: (k + r) & M24


def _mk_ror(r):
    return lambda k: ((k >> r) | (k << (24 - r))) & M24


def _mk_mul(m):
    return lambda k: (k * m) & M24


_REV8 = [_rev(i, 8) for i in range(256)]
FAMILY_QUICK = ([("desc", lambda k: M24 - k),
                 ("rev8", lambda k: (k & ~0xff) | _REV8[k & 0xff]),
                 ("rev24", lambda k: _rev(k, 24)),
                 ("mul9e3779", _mk_mul(0x9E3779))]
                + [("add%d" % r, _mk_add(r)) for r in range(1, 8)])
FAMILY_EXTRA = ([("ror%d" % r, _mk_ror(r)) for r in range(1, 8)]
                + [("mul5", _mk_mul(5)), ("mul2b", _mk_mul(0x2b)), ("mul10001", _mk_mul(0x10001))])


def family(thorough):
    return FAMILY_QUICK + (FAMILY_EXTRA if thorough else [])


def assignment(spec):
    """spec (JSON-able) -> hash function.  None | "name" | ["swap", a, b, (c, d)]"""
    if spec is None or spec == "default":
        return None
    if isinstance(spec, str):
        return dict(FAMILY_QUICK + FAMILY_EXTRA)[spec]
    if spec[0] == "swap":
        return _perm_fn(_compose_swaps(spec[1:]))
    raise ValueError(spec)


def _compose_swaps(flat):
    m = {}
    for i in range(0, len(flat), 2):
        a, b = flat[i], flat[i + 1]
        # swap the hash values currently given to objects a and b
        va, vb = m.get(a, a), m.get(b, b)
        m[a], m[b] = vb, va
    return m


def _perm_fn(m):
    get = m.get
    return lambda k: get(k, k)


# ------------------------------------------------------------------ corpus
_CACHE = {}


def _quiet():
    try:
        from loguru import logger
        logger.remove()
    except Exception:      # noqa
        pass


# ------------------------------------------------------------------ generated corpus
NEST_KINDS = ["while", "do", "forever", "cont2", "half"]
NEST_EXTRA = ["", "C", "S", "CS"]      # extra back edges to the OUTER header from inside the inner loop:
#                                                    C = straight from a conditional block, S = from a statement block


def _nested_body(ko, ki, extra, brk):
    """Two nested loops.  locals v0 r, v1 i, v2 n, v3 j, v4 m, v5 tmp; parameters v6 a, v7 b.
    kinds:  while    top: if (exit) ; B ; goto top                      (latch = statement block)
            do       top: B ; if (again) goto top                       (latch = conditional block)
            forever  top: B ; if (c1) break ; B' ; if (c2) break ; B'' ; goto top      (while(true) + breaks)
            cont2    top: if (exit) ; t ; if (t) goto top ; B ; goto top   (two back edges: 'continue')
            half     top: B ; if (c) break ; B' ; goto top              (loop and a half)
    extra/brk: inside the inner loop body: back edges to the outer header ('continue outer'), break out of both."""
    from gen import dalvik as D

    def loop(s, kind, cnt, lim, top, out, body):
        def step():
            s.ins("add-int/lit8", cnt, cnt, 1)
        s.label(top)
        if kind == "while":
            s.ins("if-ge", cnt, lim, out)
            body()
            step()
            s.ins("goto", top)
        elif kind == "do":
            body()
            step()
            s.ins("if-lt", cnt, lim, top)
        elif kind == "forever":
            body()
            s.ins("if-ge", cnt, lim, out)
            s.ins("mul-int/lit8", 0, 0, 3)
            step()
            s.ins("if-gt", cnt, lim, out)
            s.ins("xor-int/2addr", 0, cnt)
            s.ins("goto", top)
        elif kind == "cont2":
            s.ins("if-ge", cnt, lim, out)
            s.ins("and-int/lit8", 5, cnt, 1)
            step()
            s.ins("if-eqz", 5, top)
            body()
            s.ins("goto", top)
        elif kind == "half":
            body()
            s.ins("if-ge", cnt, lim, out)
            step()
            s.ins("xor-int/2addr", 0, 6)
            s.ins("goto", top)
        else:
            raise AssertionError(kind)
        s.label(out)

    def build(s):
        Lo, Lox, Li, Lix = D.Label("o"), D.Label("ox"), D.Label("i"), D.Label("ix")

        def inner_body():
            s.ins("mul-int/lit8", 0, 0, 31)
            s.ins("add-int/2addr", 0, 3)
            for k, e in enumerate(extra):
                s.ins("and-int/lit8", 5, 0, 1 << k)
                if e == "C":
                    s.ins("if-nez", 5, Lo)
                else:
                    Ls = D.Label()
                    s.ins("if-eqz", 5, Ls)
                    s.ins("add-int/lit8", 0, 0, 7 + k)
                    s.ins("goto", Lo)
                    s.label(Ls)
            if brk:
                s.ins("if-gt", 0, 7, Lox)

        def outer_body():
            s.ins("const/4", 3, 0)
            loop(s, ki, 3, 4, Li, Lix, inner_body)
            s.ins("add-int/2addr", 0, 1)

        s.ins("const/4", 0, 1)
        s.ins("and-int/lit8", 2, 6, 3)
        s.ins("and-int/lit8", 4, 7, 3)
        s.ins("const/4", 1, 0)
        loop(s, ko, 1, 2, Lo, Lox, outer_body)
        s.ins("return", 0)
    return build


_GEN = {}


def gen_programs():
    """-> [(method name, class of program, registers, ins, code bytes)]; deterministic"""
    if "p" not in _GEN:
        from checks import c21
        from gen import dalvik as D
        out, seen = [], set()
        for p in c21.tier_c(False):
            assert p.params == "II" or p.params == "JJ" or len(p.params) <= 2, p.pid
            rep = p.key not in seen          # first program of every skeleton: gets the transpositions as well
            seen.add(p.key)
            out.append((("cr_" if rep else "c_") + re.sub(r"\W", "_", p.pid[2:]), "tierC", p.params, p.ret, p.regs,
                        p.ins, p.code))
        for ko in NEST_KINDS:
            for ki in NEST_KINDS:
                for ex in NEST_EXTRA:
                    for brk in (0, 1):
                        asm = D.Asm()
                        _nested_body(ko, ki, ex, brk)(asm)
                        code, _ = asm.assemble()
                        out.append(("n_%s_%s_x%s_b%d" % (ko, ki, ex, brk), "nested", "II", "I", 8, 2, code))
        # switches with case keys that jump to the block FOLLOWING the switch instruction ("case 20: default:"):
        # v0 result, v1 parameter
        for kind in ("sparse", "packed"):
            for ft in ((0,), (1,), (2,), (0, 2), (1, 2)):
                s = D.Asm()
                base, Lft, Lend, Lpay = D.Label(), D.Label(), D.Label(), D.Label()
                Ls = [D.Label() for _ in range(3)]
                s.label(base)
                s.ins(kind + "-switch", 1, Lpay)
                s.label(Lft)
                s.ins("add-int/lit8", 0, 1, 1)
                s.ins("goto", Lend)
                for k in range(3):
                    if k not in ft:
                        s.label(Ls[k])
                        s.ins("const/16", 0, 100 * (k + 1))
                        s.ins("goto", Lend)
                s.label(Lend)
                s.ins("return", 0)
                s.align4()
                s.label(Lpay)
                tg = [Lft if k in ft else Ls[k] for k in range(3)]
                if kind == "sparse":
                    s.sparse(base, [10, 20, 30], tg)
                else:
                    s.packed(base, 10, tg)
                out.append(("cr_sw_%s_ft%s" % (kind, "".join(map(str, ft))), "switchft", "I", "I", 2, 1,
                            s.assemble()[0]))
        assert len({x[0] for x in out}) == len(out)
        _GEN["p"] = out
    return _GEN["p"]


def _freeze_generated():
    """The generated corpus is built from the live catalogue of checks/c21.py.  Child processes of one run must see
    exactly the DEX the main process saw, even if c21.py is edited meanwhile: the main process stores the bytes in a
    temporary file (removed at exit) and hands its path down through the environment."""
    if os.environ.get("C22_GEN_DEX") and os.path.exists(os.environ["C22_GEN_DEX"]):
        return
    import atexit
    import shutil
    import tempfile
    tmp = tempfile.mkdtemp(prefix="verif_c22_")
    path = os.path.join(tmp, "generated.dex")
    with open(path, "wb") as f:
        f.write(gen_dex())
    os.environ["C22_GEN_DEX"] = path
    owner = os.getpid()
    atexit.register(lambda: os.getpid() == owner and shutil.rmtree(tmp, ignore_errors=True))


def gen_dex():
    if "dex" not in _GEN:
        frozen = os.environ.get("C22_GEN_DEX")
        if frozen and os.path.exists(frozen):
            with open(frozen, "rb") as f:
                _GEN["dex"] = f.read()
            return _GEN["dex"]
        from gen import dexgen as G
        classes, groups = [], {}
        for x in gen_programs():
            groups.setdefault(x[1], []).append(x)
        for fam in sorted(groups):
            lst = groups[fam]
            for g in range(0, len(lst), 25):
                ms = [G.Method(name, ret, tuple(params), G.ACC_PUBLIC | G.ACC_STATIC,
                               G.Code(registers=regs, ins=ins, outs=0, insns=code))
                      for name, _, params, ret, regs, ins, code in lst[g:g + 25]]
                classes.append(G.Class("Lgen/%s%02d;" % (fam, g // 25), dmethods=ms))
        _GEN["dex"] = G.build(G.Dex(classes))
    return _GEN["dex"]


EXTREME = [("a1_blocks2600", "gotos", 2600), ("a2_blocks1300", "gotos", 1300),
           ("b1_expr2560", "deep", 2560), ("b2_expr1200", "deep", 1200)]


def gen_extreme_dex():
    """A1/A2: ~2600 / ~1300 basic blocks (a chain of goto +1: deep graph traversals; above / below the size at which
    2*blocks exceeds the recursion limit of 5000 set by androguard.decompiler);  B1/B2: one basic block whose return
    expression nests 2560 / 1200 additions (the same register is reused, so propagation folds it into ONE expression:
    deep recursion in dataflow and writer, 2 frames per level: 2560 is ~65 levels above what fits into the limit of
    5000, so on its own it ends in RecursionError, and it completes as soon as anything raised the limit by ~150)."""
    if "xt" not in _GEN:
        from gen import dalvik as D
        from gen import dexgen as G
        ms = []
        for name, kind, n in EXTREME:
            s = D.Asm()
            if kind == "gotos":
                for _ in range(n):
                    L = D.Label()
                    s.ins("goto", L)
                    s.label(L)
                s.ins("return", 1)
            else:
                s.ins("add-int/lit8", 0, 1, 1)
                for _ in range(n - 1):
                    s.ins("add-int/lit8", 0, 0, 1)
                s.ins("return", 0)
            ms.append(G.Method(name, "I", ("I",), G.ACC_PUBLIC | G.ACC_STATIC,
                               G.Code(registers=2, ins=1, outs=0, insns=s.assemble()[0])))
        _GEN["xt"] = G.build(G.Dex([G.Class("Lgen/Extreme;", dmethods=ms)]))
    return _GEN["xt"]


def raw_bytes(repo, name):
    if name == GEN:
        return gen_dex()
    if name == XT:
        return gen_extreme_dex()
    path = os.path.join(repo, "tests", "data", "APK", name)
    if name.endswith(".apk"):
        with zipfile.ZipFile(path) as z:
            return z.read("classes.dex")
    with open(path, "rb") as f:
        return f.read()


def load(repo, name):
    """DEX + Analysis for one corpus file; one big file cached per process."""
    if name in _CACHE:
        return _CACHE[name]
    from androguard.core import dex
    from androguard.core.analysis.analysis import Analysis
    raw = raw_bytes(repo, name)
    import gc
    if len(raw) > 100000:         # keep at most one big file per process
        stale = [k for k in _CACHE if _CACHE[k][2] > 100000]
        if stale:
            for k in stale:
                del _CACHE[k]
            gc.unfreeze()
            gc.collect()
    gc.disable()                  # the parsed DEX is a huge long-lived object graph: keep the cyclic GC off it
    try:
        d = dex.DEX(raw)
        dx = Analysis(d)
        gc.freeze()
    finally:
        gc.enable()
    _CACHE[name] = (d, dx, len(raw))
    return _CACHE[name]


_SIZES = {}


def all_sizes(repo):
    todo = [n for n in CORPORA if (repo, n) not in _SIZES]
    if todo:
        out = _run_child(repo, {"op": "sizes", "dexes": todo})
        for n in todo:
            _SIZES[(repo, n)] = out[n]
    return {n: _SIZES[(repo, n)] for n in CORPORA}


def slices(sizes, per):
    """partition class indices into contiguous [lo, hi) slices of about `per` methods"""
    out, lo, acc = [], 0, 0
    for i, s in enumerate(sizes):
        acc += s
        if acc >= per:
            out.append((lo, i + 1))
            lo, acc = i + 1, 0
    if lo < len(sizes):
        out.append((lo, len(sizes)))
    return out


_ADDR = re.compile(r"0x[0-9a-fA-F]{6,}")


def _exc_text(e):
    if isinstance(e, RecursionError):         # the message depends on where the limit was hit: class only
        return "EXC:RecursionError"
    return "EXC:%s:%s" % (type(e).__name__, _ADDR.sub("0x?", str(e)))


def th(text):
    return hashlib.blake2b(text.encode("utf-8", "surrogatepass"), digest_size=8).hexdigest()


def mid(c, i, m):
    return "%s->%s%s#%d" % (c.get_name(), m.get_name(), m.get_descriptor(), i)


def run_class(dx, c, spec=None, rec=None):
    """DvClass(c).process() under one assignment -> (class text, [method texts])."""
    from androguard.decompiler.decompile import DvClass, DvMethod
    CTL.fn = assignment(spec)
    CTL.rec = rec
    try:
        try:
            dc = DvClass(c, dx)
            dc.process()
            ctext = dc.get_source()
        except Exception as e:      # noqa
            return _exc_text(e), []
        mt = []
        for m in dc.get_methods():
            mt.append(m.get_source() if isinstance(m, DvMethod) else "NOT-DECOMPILED")
        return ctext, mt
    finally:
        CTL.fn = None
        CTL.rec = None


def run_method(dx, m, spec=None, rec=None):
    """DvMethod(m).process(); get_source() under one assignment -> text (or EXC:type:message)."""
    from androguard.decompiler.decompile import DvMethod
    CTL.fn = assignment(spec)
    CTL.rec = rec
    try:
        ms = DvMethod(dx.get_method(m))
        ms.process()
        return ms.get_source()
    except Exception as e:      # noqa
        return _exc_text(e)
    finally:
        CTL.fn = None
        CTL.rec = None


def rerun_class(dx, c):
    """histories on the SAME parsed objects, default assignment (the class was decompiled before by the caller):
    a new DvClass; process() once more on that same DvClass object; a new DvMethod per method on the same
    MethodAnalysis.  -> [(phase, witness kind, class text | None, [method texts])]"""
    from androguard.decompiler.decompile import DvClass, DvMethod

    def texts(dc):
        return dc.get_source(), [m.get_source() if isinstance(m, DvMethod) else "NOT-DECOMPILED" for m in dc.get_methods()]
    CTL.fn = CTL.rec = None
    try:
        dc = DvClass(c, dx)
        dc.process()
        r1 = texts(dc)
        dc.process()
        r2 = texts(dc)
    except Exception as e:      # noqa
        r1 = r2 = (_exc_text(e), [])
    mm = [run_method(dx, m) for m in c.get_methods()]
    return [("repeat", "repeat") + r1, ("reprocess", "reprocess") + r2, ("class-then-method", "clsmeth", None, mm)]


def diff_class(a, b):
    """coarse, stable class of a difference between two texts of the same method"""
    if a.startswith("EXC:") or b.startswith("EXC:") or "NOT-DECOMPILED" in (a, b):
        return "exception"
    la, lb = a.split("\n"), b.split("\n")
    if sorted(la) == sorted(lb):
        moved = [x.strip() for x, y in zip(la, lb) if x != y]
        if all(_DECL.match(x) for x in moved):
            return "decl-order"
        return "line-order"
    return "structure"


_DECL = re.compile(r"^[\w.$<>\[\]]+ v\w+;$")


def small_diff(a, b, limit=14):
    import difflib
    d = [l for l in difflib.unified_diff(a.split("\n"), b.split("\n"), "baseline", "variant", lineterm="", n=1)]
    d = [l if len(l) <= 200 else l[:200] + " ...[%d chars]" % len(l) for l in d]
    return "\n".join(d[:limit] + (["..."] if len(d) > limit else []))


# ------------------------------------------------------------------ child processes
def _die_with_parent():
    try:
        import ctypes
        ctypes.CDLL(None).prctl(1, 15)          # PR_SET_PDEATHSIG, SIGTERM
    except Exception:      # noqa
        pass


def _run_child(repo, job, seed="0", timeout=3000):
    env = dict(os.environ, PYTHONHASHSEED=str(seed), VERIF_REPO=repo)
    code = ("import sys; sys.path[:0] = [%r, %r]; from checks import c22; c22._child_main()" % (repo, VERIF))
    p = subprocess.run([sys.executable, "-c", code], input=json.dumps(job), capture_output=True, text=True,
                       env=env, timeout=timeout, cwd=VERIF, preexec_fn=_die_with_parent)
    if p.returncode != 0:
        raise RuntimeError("C22 child failed (%s): %s" % (job.get("op"), p.stderr[-1500:]))
    return json.loads(p.stdout)


def _child_main():
    _quiet()
    job = json.loads(sys.stdin.read())
    repo = os.environ.get("VERIF_REPO", "/repo")
    op = job["op"]
    if op == "sizes":
        from androguard.core import dex
        out = {}
        for name in job["dexes"]:
            raw = raw_bytes(repo, name)
            out[name] = [len(c.get_methods()) for c in dex.DEX(raw).get_classes()]
    elif op == "slice":
        out = child_slice(repo, job["dex"], job.get("lo"), job.get("hi"), job.get("texts", False), job.get("only"))
    elif op == "slices":
        out = [child_slice(repo, name, lo, hi) for name, lo, hi in job["items"]]
    elif op == "eval":
        out = eval_witness(repo, job["w"])
    elif op == "hist":
        out = hist_server(repo, job["corpus"], job["seqs"])
    elif op == "histcorpus":
        out = hist_corpus(repo)
    else:
        raise ValueError(op)
    sys.stdout.write(json.dumps(out))


def child_slice(repo, name, lo, hi, texts=False, only=None):
    """default assignment over classes [lo, hi) (or the listed class indices):
    {"c": [class text hash], "m": [[method text hash]]}  (texts instead of hashes if texts=True)"""
    install()
    d, dx, _ = load(repo, name)
    cs, ms = [], []
    classes = d.get_classes()
    for ci in (only if only is not None else range(lo, hi)):
        ct, mt = run_class(dx, classes[ci])
        cs.append(ct if texts else th(ct))
        ms.append(mt if texts else [th(t) for t in mt])
    return {"c": cs, "m": ms}


# ------------------------------------------------------------------ judging single witnesses (shared with replay)
def eval_witness(repo, w):
    """Runs one witness in THIS process.  -> {"a": baseline text, "b": variant text, "mid": ...}"""
    install()
    kind = w["kind"]
    if kind in ("assign", "repeat"):
        d, dx, _ = load(repo, w["dex"])
        c = d.get_classes()[w["class"]]
        ct0, mt0 = run_class(dx, c)
        ct1, mt1 = run_class(dx, c, w.get("assign"))
        i = w.get("method")
        if i is None:
            return {"a": ct0, "b": ct1, "mid": str(c.get_name())}
        return {"a": mt0[i], "b": mt1[i], "mid": mid(c, i, c.get_methods()[i])}
    if kind in ("reprocess", "clsmeth"):
        d, dx, _ = load(repo, w["dex"])
        c = d.get_classes()[w["class"]]
        ct0, mt0 = run_class(dx, c)
        rr = rerun_class(dx, c)
        _, _, ct1, mt1 = rr[1] if kind == "reprocess" else rr[2]
        i = w.get("method")
        if i is None:
            return {"a": ct0, "b": ct1, "mid": str(c.get_name())}
        return {"a": mt0[i], "b": mt1[i], "mid": mid(c, i, c.get_methods()[i])}
    if kind == "swap":
        d, dx, _ = load(repo, w["dex"])
        c = d.get_classes()[w["class"]]
        m = c.get_methods()[w["method"]]
        return {"a": run_method(dx, m), "b": run_method(dx, m, w["assign"]), "mid": mid(c, w["method"], m)}
    if kind == "classtext":
        d, dx, _ = load(repo, w["dex"])
        c = d.get_classes()[w["class"]]
        ct, mt = run_class(dx, c)
        i = w.get("method")
        return {"a": ct if i is None else mt[i], "mid": str(c.get_name())}
    if kind == "histstate":
        s0 = interp_state()
        for (name, ci, mi) in w["seq"]:
            d, dx, _ = _hist_load(repo, name)
            run_method(dx, d.get_classes()[ci].get_methods()[mi])
        s1 = interp_state()
        return {"a": json.dumps(s0[w["which"]]), "b": json.dumps(s1[w["which"]]), "mid": "%s:%d:%d" % tuple(w["seq"][-1])}
    if kind == "hist":
        last = None
        for (name, ci, mi) in w["seq"]:
            d, dx, _ = _hist_load(repo, name)
            c = d.get_classes()[ci]
            last = run_method(dx, c.get_methods()[mi])
        return {"a": last, "mid": "%s:%d:%d" % tuple(w["seq"][-1])}
    raise ValueError(kind)


def judge_fresh(repo, w):
    """One confirmation of a witness using fresh child process(es). -> None | (signature, message)"""
    kind = w["kind"]
    if kind in ("assign", "repeat", "swap", "reprocess", "clsmeth"):
        r = _run_child(repo, {"op": "eval", "w": w})
        a, b = r["a"], r["b"]
        how = {"reprocess": "a second process() on the same DvClass object",
               "clsmeth": "a new DvMethod on the same MethodAnalysis after its class was decompiled",
               "repeat": "a second decompilation in the same process"}.get(kind, "assignment %s" % (w.get("assign"),))
    elif kind == "seed":
        w2 = dict(w, kind="classtext")
        ra = _run_child(repo, {"op": "eval", "w": w2}, seed="0")
        rb = _run_child(repo, {"op": "eval", "w": w2}, seed=str(w["seed"]))
        r, a, b = ra, ra["a"], rb["a"]
        how = "PYTHONHASHSEED=%s vs 0" % w["seed"]
    elif kind == "histstate":
        r = _run_child(repo, {"op": "eval", "w": w})
        if r["a"] == r["b"]:
            return None
        return (th(r["a"]) + th(r["b"]),
                "decompiling %s left interpreter-global state changed for everything decompiled later in the process: "
                "%s %s -> %s" % (w["seq"], w["which"], r["a"], r["b"]))
    elif kind == "hist":
        ra = _run_child(repo, {"op": "eval", "w": dict(w, seq=w["seq"][-1:])})
        rb = _run_child(repo, {"op": "eval", "w": w})
        r, a, b = ra, ra["a"], rb["a"]
        how = "after history %s" % (w["seq"][:-1],)
    else:
        raise ValueError(kind)
    if a == b:
        return None
    return (th(a) + th(b),
            "%s %s: get_source() differs under %s [%s]\n%s" % (w.get("dex", ""), r["mid"], how, diff_class(a, b),
                                                             small_diff(a, b)))


def replay(ctx, w):
    r1 = judge_fresh(ctx.repo, w)
    r2 = judge_fresh(ctx.repo, w)
    if r1 is None and r2 is None:
        return None
    if r1 is None or r2 is None or r1[0] != r2[0]:
        return "UNSTABLE between two fresh-process replays (nondeterminism outside the explorer's control): %s | %s" % (
            r1 and r1[1], r2 and r2[1])
    return r1[1]


# ------------------------------------------------------------------ history part
_HCACHE = {}


def _hist_load(repo, name):
    if name not in _HCACHE:
        from androguard.core import dex
        from androguard.core.analysis.analysis import Analysis
        d = dex.DEX(raw_bytes(repo, name))
        _HCACHE[name] = (d, Analysis(d), 0)
    return _HCACHE[name]


def hist_corpus(repo):
    """Deterministic ~60 method corpus: every method with code of the 7 small DEX files + from classes.dex the
    first 13 (by sorted id) methods with a switch, with a try/catch, with a loop (back edge) respectively.
    -> {"corpus": [[dex, class idx, method idx, id, feature]], "sub": [indices of the 15-method sub-corpus]}"""
    corpus, sub = [], []
    for name in HIST_DEXES:
        d, dx, _ = _hist_load(repo, name)
        feats = {"switch": [], "try": [], "loop": []}
        for ci, c in enumerate(d.get_classes()):
            for mi, m in enumerate(c.get_methods()):
                code = m.get_code()
                if code is None:
                    continue
                ident = mid(c, mi, m)
                if name != "classes.dex":
                    corpus.append([name, ci, mi, ident, "small"])
                    continue
                mx = dx.get_method(m)
                f = set()
                if code.get_tries_size() > 0:
                    f.add("try")
                for bb in mx.get_basic_blocks().get():
                    for _, _, ch in bb.childs:
                        if ch.start <= bb.start:
                            f.add("loop")
                    for ins in bb.get_instructions():
                        if ins.get_name() in ("packed-switch", "sparse-switch"):
                            f.add("switch")
                for x in f:
                    feats[x].append((ident, ci, mi))
        if name == "classes.dex":
            seen = set(x[3] for x in corpus)
            for x in ("switch", "try", "loop"):
                k = 0
                for ident, ci, mi in sorted(feats[x]):
                    if ident in seen:
                        continue
                    seen.add(ident)
                    if k < 5:
                        sub.append(len(corpus))
                    corpus.append([name, ci, mi, ident, x])
                    k += 1
                    if k == 13:
                        break
    chain = list(range(len(corpus)))
    d, dx, _ = _hist_load(repo, XT)
    extreme = []
    for mi, m in enumerate(d.get_classes()[0].get_methods()):
        extreme.append(len(corpus))
        corpus.append([XT, 0, mi, mid(d.get_classes()[0], mi, m), "extreme"])
    return {"corpus": corpus, "sub": sub, "chain": chain, "extreme": extreme, "ord3": sub[0::5][:3]}


def _canon(x, depth=0, seen=None):
    """address-free canonical form of process-global state (bounded depth)"""
    import types
    if isinstance(x, (int, float, str, bytes, bool, type(None))):
        return repr(x)
    if isinstance(x, (types.FunctionType, types.BuiltinFunctionType, type, types.ModuleType, types.MethodType)):
        return "<%s>" % getattr(x, "__qualname__", getattr(x, "__name__", "?"))
    if depth > 3:
        return "<%s>" % type(x).__name__
    if isinstance(x, dict):
        return "{" + ",".join(sorted(_canon(k, depth + 1) + ":" + _canon(v, depth + 1) for k, v in list(x.items()))) + "}"
    if isinstance(x, (list, tuple)):
        return "[" + ",".join(_canon(v, depth + 1) for v in x) + "]"
    if isinstance(x, (set, frozenset)):
        return "s{" + ",".join(sorted(_canon(v, depth + 1) for v in x)) + "}"
    d = getattr(x, "__dict__", None)
    if isinstance(d, dict) and depth <= 2:
        return "<%s %s>" % (type(x).__name__, _canon(d, depth + 1))
    return "<%s>" % type(x).__name__


def global_fingerprint():
    """hash of all module globals and class attributes of androguard.decompiler.* (the state a decompilation could
    leave behind in the process apart from the DEX/Analysis objects it was given)"""
    h = hashlib.blake2b(digest_size=8)
    for mn in sorted(sys.modules):
        if not mn.startswith("androguard.decompiler"):
            continue
        mod = sys.modules[mn]
        for k in sorted(vars(mod)):
            v = vars(mod)[k]
            if k.startswith("__") or isinstance(v, type(sys)):
                continue
            if isinstance(v, type):
                if v.__module__ != mn:
                    continue
                for ak in sorted(vars(v)):
                    if ak in ("__new__", "__hash__", "__init__", "__dict__", "__weakref__", "__doc__"):
                        continue
                    h.update(("%s.%s.%s=%s\n" % (mn, k, ak, _canon(vars(v)[ak], 1))).encode("utf-8", "replace"))
            else:
                h.update(("%s.%s=%s\n" % (mn, k, _canon(v))).encode("utf-8", "replace"))
    return h.hexdigest()


def _fresh(repo, names):
    """freshly parsed DEX + freshly built Analysis for the named (history corpus) files; nothing cached"""
    from androguard.core import dex
    from androguard.core.analysis.analysis import Analysis
    out = {}
    for name in names:
        d = dex.DEX(raw_bytes(repo, name))
        out[name] = (d, Analysis(d))
    return out


def interp_state():
    """interpreter-global state a decompilation could leave changed (and that can change later output)"""
    import gc
    import locale
    import warnings
    env = hashlib.blake2b(repr(sorted(os.environ.items())).encode("utf-8", "replace"), digest_size=8).hexdigest()
    return {"recursionlimit": sys.getrecursionlimit(), "switchinterval": sys.getswitchinterval(),
            "warnings.filters": len(warnings.filters), "gc.enabled": gc.isenabled(),
            "locale": list(locale.getlocale()), "cwd": os.getcwd(), "environ": env}


def _state_diff(s0, s1):
    return {k: [s0[k], s1[k]] for k in sorted(s0) if s0[k] != s1[k]}


def hist_server(repo, corpus, seqs):
    """One process, nothing decompiled before.  Every history `seq` (indices into corpus) runs on freshly parsed
    DEX + fresh Analysis objects.  -> [{"h": [text hash per step], "g": decompiler global-state fingerprint after,
    "i": None | [first step after which the interpreter-global state differed from pristine, {which: [before, after]}]}]
    (a changed interpreter state is put back before the next history, so that histories stay independent)"""
    install()
    g0 = global_fingerprint()
    i0 = interp_state()
    out = []
    for seq in seqs:
        objs = _fresh(repo, sorted({corpus[i][0] for i in seq}))
        res, ichg = [], None
        for pos, i in enumerate(seq):
            name, ci, mi = corpus[i][:3]
            d, dx = objs[name]
            res.append(th(run_method(dx, d.get_classes()[ci].get_methods()[mi])))
            if ichg is None:
                df = _state_diff(i0, interp_state())
                if df:
                    ichg = [pos, df]
        out.append({"h": res, "g": global_fingerprint(), "i": ichg})
        del objs
        if ichg is not None:
            sys.setrecursionlimit(i0["recursionlimit"])
            sys.setswitchinterval(i0["switchinterval"])
    return {"g0": g0, "i0": i0, "r": out}


_HC = {}


def _hcorpus(repo):
    """history corpus + the reference text hash of every corpus method decompiled ALONE (fresh process, fresh
    objects, nothing before it); computed once in the main process, inherited by the forked shard workers."""
    if repo not in _HC:
        hc = _run_child(repo, {"op": "histcorpus"})
        c3 = [x[:3] for x in hc["corpus"]]
        n = len(c3)
        import concurrent.futures
        chunks = [list(range(a, n, 8)) for a in range(8)]
        with concurrent.futures.ThreadPoolExecutor(8) as ex:
            rs = list(ex.map(lambda ch: _run_child(repo, {"op": "hist", "corpus": c3, "seqs": [[i] for i in ch]}), chunks))
        alone = [None] * n
        for ch, r in zip(chunks, rs):
            for i, x in zip(ch, r["r"]):
                alone[i] = x["h"][0]
        hc["alone"] = alone
        hc["g0"] = rs[0]["g0"]
        _HC[repo] = hc
    return _HC[repo]


# ------------------------------------------------------------------ space / shards
def seeds(ctx):
    return list(range(1, 32 if ctx.thorough else 8))


def space(ctx):
    hc = _hcorpus(ctx.repo)
    n, s = len(hc["chain"]), len(hc["sub"])
    sizes = all_sizes(ctx.repo)
    return {
        "dex_files": DEXES,
        "generated_corpus": {"tierC_programs_of_C21": len([x for x in gen_programs() if x[1] == "tierC"]),
                             "tierC_skeletons_with_all_transpositions": len([x for x in gen_programs() if x[0].startswith("cr_")]),
                             "nested_loop_family": "%d = outer kind x inner kind %r x extra back edges to the outer header %r x break 0/1; all transpositions" % (len([x for x in gen_programs() if x[1] == "nested"]), NEST_KINDS, NEST_EXTRA)},
        "classes": sum(len(v) for v in sizes.values()),
        "methods": sum(sum(v) for v in sizes.values()),
        "global_family": ["default"] + [a for a, _ in family(ctx.thorough)],
        "same_object_histories_per_class": ["new DvClass on the same Analysis", "process() again on the same DvClass",
                                            "new DvMethod per method on the same MethodAnalysis"],
        "transposition_bound": {"deviation_1_max_hashed_objects": T_MAX_THOROUGH if ctx.thorough else T_MAX_QUICK,
                                "deviation_2_max_hashed_objects": T2_MAX if ctx.thorough else 0},
        "hashseeds": [0] + seeds(ctx),
        "history_corpus": n,
        "history_pairs_adjacent_in_chains": "all %d ordered pairs (A,B): chain A B1 A B2 .. on objects fresh per A" % (n * n),
        "history_pairs_exact_fresh_objects_per_pair": (n * n) if ctx.thorough else
        "all ordered pairs of the %d small-file methods" % len([x for x in hc["corpus"] if x[4] == "small"]),
        "history_triples_exact": (s * (s - 1) * (s - 2)) if ctx.thorough else 0,
        "history_extreme_size_methods": {"methods": [x[0] for x in EXTREME], "histories": len(extreme_histories(hc)),
                                         "shape": "all ordered pairs of the 4 + each before/after 3 ordinary methods"},
        "interpreter_state_fingerprint": sorted(interp_state()),
        "hash_domain": "injective maps creation-index -> [0, 2^24)",
    }


def shards(ctx):
    _freeze_generated()
    sizes = all_sizes(ctx.repo)
    out = []
    big = [n for n in CORPORA if sum(sizes[n]) > 1000]
    # S: one child per (part, seed); a part is half of a big file (the child has to parse the file) or all small files
    sd = seeds(ctx)
    parts = [[(n, 0, len(sizes[n])) for n in CORPORA if n not in big]]
    for name in big:
        total, half, k = sum(sizes[name]), 0, 0
        while k < len(sizes[name]) and (half < total // 2 or total < 5000):
            half += sizes[name][k]
            k += 1
        parts += [[(name, 0, k)]] + ([[(name, k, len(sizes[name]))]] if k < len(sizes[name]) else [])
    # longest shards first (S on half a big file: 1 in-process run + 4 child runs), so that the pool packs well
    for g in range(0, len(sd), 4):
        for part in parts[1:] + parts[:1]:
            out.append(("S", part, sd[g:g + 4]))
    for name in big + [n for n in CORPORA if n not in big]:
        for lo, hi in slices(sizes[name], 25 if name == GEN else T_SLICE):      # generated: all transpositions
            out.append(("T", name, lo, hi))
    for name in CORPORA:
        for lo, hi in slices(sizes[name], G_SLICE):
            out.append(("G", name, lo, hi))
    hc = _hcorpus(ctx.repo)
    for k in range(8):
        out.append(("HE", k, 8))                             # extreme-size methods: exact histories
    n = len(hc["chain"])
    for a in range(0, n, 4):
        out.append(("H", a, min(a + 4, n)))                  # chains: A B1 A B2 ... on objects fresh per A
    small = [i for i, x in enumerate(hc["corpus"]) if x[4] == "small"]
    if ctx.thorough:
        for a in range(n):
            out.append(("HX", [a], list(range(n))))          # exact pairs, objects fresh per pair
        for a in hc["sub"]:
            out.append(("H3", a))
    else:
        for g in range(0, len(small), 6):
            out.append(("HX", small[g:g + 6], small))
    return out


# ------------------------------------------------------------------ run
def _viol(acc, cands, phase, name, w, a, b, ident, how):
    cls = diff_class(a, b)
    key = "%s:%s:%s" % (phase, cls, name)
    cands.setdefault(key, []).append((len(a) + len(b), ident, w,
                                      "%s %s: get_source() differs under %s [%s]\n%s" % (name, ident, how, cls,
                                                                                       small_diff(a, b))))


def _flush(acc, cands):
    for key in sorted(cands):
        lst = sorted(cands[key], key=lambda x: (x[0], x[1]))
        for _, _, w, msg in lst:          # smallest witness first
            acc.violation(key, w, msg)


def run_shard(ctx, shard):
    _quiet()
    install()
    acc = Acc()
    cands = {}
    kind = shard[0]
    if kind == "G":
        _run_G(ctx, acc, cands, *shard[1:])
    elif kind == "T":
        _run_T(ctx, acc, cands, *shard[1:])
    elif kind == "S":
        _run_S(ctx, acc, cands, shard[1], shard[2])
    elif kind == "H":
        _run_H(ctx, acc, cands, shard[1], shard[2])
    elif kind == "HX":
        _run_HX(ctx, acc, cands, shard[1], shard[2])
    elif kind == "H3":
        _run_H3(ctx, acc, cands, shard[1])
    elif kind == "HE":
        _run_HE(ctx, acc, cands, shard[1], shard[2])
    _flush(acc, cands)
    return acc


def _run_G(ctx, acc, cands, name, lo, hi):
    d, dx, _ = load(ctx.repo, name)
    fam = family(ctx.thorough)
    classes = d.get_classes()
    for ci in range(lo, hi):
        c = classes[ci]
        meths = c.get_methods()
        rec = set()
        ct0, mt0 = run_class(dx, c, None, rec)
        ids = [mid(c, i, m) for i, m in enumerate(meths)]
        acc.count("classes")
        acc.count("methods", len(meths))
        if name == GEN:
            acc.count("generated_methods", len(meths))
        acc.transitions += len(meths)
        acc.traces += 1
        acc.state((name, "class", str(c.get_name()), th(ct0)))
        for i, t in enumerate(mt0):
            acc.state((name, ids[i], th(t)))
            acc.outcomes.add(h8(t))
        HOW = {"repeat": "a second run (new DvClass, same Analysis) in the same process",
               "reprocess": "process() called a second time on the same DvClass object",
               "class-then-method": "a new DvMethod on the same MethodAnalysis after the class was decompiled"}
        unstable, cls_unstable = set(), False
        passes = [(ph, kd, "default", ct, mt) for ph, kd, ct, mt in rerun_class(dx, c)]
        acc.transitions += 3 * len(meths)
        acc.traces += 3
        acc.count("same_object_histories", 3 * len(meths))
        for aname, _ in fam:
            passes.append(("idhash", "assign", aname, None, None))
        for phase, wkind, aname, ct, mt in passes:
            if phase == "idhash":
                ct, mt = run_class(dx, c, aname)
                acc.transitions += len(meths)
                acc.traces += 1
                acc.count("assignments_per_method", len(meths))
            acc.n += len(meths) + 1
            if len(rec) >= 2:
                acc.nt_disjoint += len(meths)
            how = "identity-hash assignment '%s'" % aname if phase == "idhash" else HOW[phase]
            bad = False
            for i, t in enumerate(mt):
                if phase == "idhash" and i in unstable:
                    continue                      # the baseline of this method is not even stable under repetition
                if i >= len(mt0) or t != mt0[i]:
                    bad = True
                    if phase != "idhash":
                        unstable.add(i)
                    acc.state((name, ids[i], th(t)))
                    _viol(acc, cands, phase, name, {"kind": wkind, "dex": name, "class": ci, "method": i,
                                                    "assign": aname},
                          mt0[i] if i < len(mt0) else "", t, ids[i], how)
            if ct is not None and ct != ct0 and not (phase == "idhash" and (cls_unstable or unstable)):
                acc.state((name, "class", str(c.get_name()), th(ct)))
                if phase != "idhash":
                    cls_unstable = True
                if not bad:
                    _viol(acc, cands, phase + "-classlevel", name,
                          {"kind": wkind, "dex": name, "class": ci, "method": None, "assign": aname},
                          ct0, ct, str(c.get_name()), how)
        if ci == lo == 0 and name == "classes.dex":
            acc.sample({"part": "G", "dex": name, "class": str(c.get_name()), "methods": len(meths),
                        "assignments": ["default", "default(new DvClass)", "default(same DvClass again)",
                                        "default(new DvMethod each)"] + [a for a, _ in fam],
                        "hashed_objects_in_class": len(rec)})


def _run_T(ctx, acc, cands, name, lo, hi):
    d, dx, _ = load(ctx.repo, name)
    tmax = T_MAX_THOROUGH if ctx.thorough else T_MAX_QUICK
    if name == GEN:
        tmax = 10 ** 9                # generated methods are small: every transposition
    classes = d.get_classes()
    sampled = False
    for ci in range(lo, hi):
        c = classes[ci]
        for mi, m in enumerate(c.get_methods()):
            if m.get_code() is None:
                continue
            rec = set()
            t0 = run_method(dx, m, None, rec)
            acc.transitions += 1
            acc.traces += 1
            hashed = sorted(rec)
            n = len(hashed)
            ident = mid(c, mi, m)
            acc.state((name, ident, th(t0)))
            acc.count("hashed_objects", n)
            if n < 2:
                continue
            acc.count("methods_with_hashed_objects")
            if name == GEN and not ctx.thorough and str(m.get_name()).startswith("c_"):
                acc.count("generated_tierC_programs_with_global_family_only")      # same skeleton as a 'cr_' program
                continue
            if n > tmax:
                acc.count("methods_over_transposition_bound")
                acc.note("transpositions only for methods with <= %d really hashed objects (%s tier, stated in space); "
                         "larger methods get the global family only" % (tmax, ctx.tier))
                continue
            swaps = [(hashed[i], hashed[j]) for i in range(n) for j in range(i + 1, n)]
            specs = [["swap", a, b] for a, b in swaps]
            if ctx.thorough and n <= T2_MAX:
                for x in range(len(swaps)):
                    for y in range(x + 1, len(swaps)):
                        specs.append(["swap", swaps[x][0], swaps[x][1], swaps[y][0], swaps[y][1]])
                acc.count("transposition_pairs", len(specs) - len(swaps))
            acc.count("transpositions", len(swaps))
            acc.count("assignments_per_method", len(specs))
            for spec in specs:
                t = run_method(dx, m, spec)
                acc.n += 1
                acc.nt_disjoint += 1
                acc.transitions += 1
                acc.traces += 1
                if t != t0:
                    acc.state((name, ident, th(t)))
                    if run_method(dx, m) != t0:
                        # not the assignment: the default run itself no longer gives the first text (history)
                        _viol(acc, cands, "repeat", name, {"kind": "swap", "dex": name, "class": ci, "method": mi,
                                                           "assign": ["swap", 0, 0]}, t0, t, ident,
                              "repeated decompilation of the method (new DvMethod, same MethodAnalysis)")
                        break
                    _viol(acc, cands, "idhash", name, {"kind": "swap", "dex": name, "class": ci, "method": mi,
                                                       "assign": spec}, t0, t, ident,
                          "transposition of identity hashes of objects %s (of %d hashed)" % (spec[1:], n))
            if not sampled and n >= 6 and lo == 0 and name == "classes.dex":
                sampled = True
                acc.sample({"part": "T", "dex": name, "method": ident, "hashed_objects": n,
                            "transpositions": len(swaps), "first": specs[0], "last": specs[-1]})


def _run_S(ctx, acc, cands, part, sds):
    # in-process reference: PYTHONHASHSEED=0 is pinned by run_check.py (otherwise the parent is just one more seed)
    if os.environ.get("PYTHONHASHSEED") != "0":
        acc.note("parent process did not run with PYTHONHASHSEED=0")
    # reference from a fresh child too (this worker may have decompiled these methods before: history is H's job)
    base = _run_child(ctx.repo, {"op": "slices", "items": part}, seed="0")
    nm = sum(len(x) for bs in base for x in bs["m"])
    acc.transitions += nm
    acc.traces += 1
    for s in sds:
        got = _run_child(ctx.repo, {"op": "slices", "items": part}, seed=str(s))
        acc.count("hashseed_runs")
        acc.transitions += nm
        acc.traces += 1
        acc.n += nm
        acc.nt_disjoint += nm
        for (name, lo, hi), bs, gs in zip(part, base, got):
            bad = [lo + k for k in range(hi - lo) if gs["m"][k] != bs["m"][k] or gs["c"][k] != bs["c"][k]]
            if not bad:
                continue
            classes = load(ctx.repo, name)[0].get_classes()
            tb = _run_child(ctx.repo, {"op": "slice", "dex": name, "texts": True, "only": bad}, seed="0")
            tg = _run_child(ctx.repo, {"op": "slice", "dex": name, "texts": True, "only": bad}, seed=str(s))
            for x, ci in enumerate(bad):
                c = classes[ci]
                diffs = [i for i in range(len(tb["m"][x])) if tg["m"][x][i] != tb["m"][x][i]]
                w = {"kind": "seed", "dex": name, "class": ci, "seed": s, "method": diffs[0] if diffs else None}
                a, b = (tb["m"][x][diffs[0]], tg["m"][x][diffs[0]]) if diffs else (tb["c"][x], tg["c"][x])
                acc.state((name, str(c.get_name()), w["method"], th(b)))
                if a != b:
                    _viol(acc, cands, "hashseed", name, w, a, b,
                          mid(c, diffs[0], c.get_methods()[diffs[0]]) if diffs else str(c.get_name()),
                          "PYTHONHASHSEED=%d vs 0" % s)
                else:
                    acc.harness_error("hash-seed difference for %s class %d seed %d vanished on re-evaluation"
                                      % (name, ci, s))
    if part[0][0] == "classes.dex" and sds[0] == 1:
        acc.sample({"part": "S", "files": [x[0] for x in part], "seeds": [0] + list(sds), "methods": nm})


def _hist_run(ctx, acc, cands, seqs, kind):
    hc = _hcorpus(ctx.repo)
    corpus, alone = hc["corpus"], hc["alone"]
    c3 = [x[:3] for x in corpus]
    out = _run_child(ctx.repo, {"op": "hist", "corpus": c3, "seqs": seqs})
    if out["g0"] != hc["g0"]:
        acc.harness_error("pristine global-state fingerprint differs between two fresh processes")
    acc.traces += len(seqs)
    for seq, r in zip(seqs, out["r"]):
        acc.transitions += len(seq)
        acc.state(("global-state", r["g"]))
        if r["g"] != out["g0"]:
            acc.count("histories_that_changed_decompiler_global_state")
        if r.get("i"):
            pos, df = r["i"]
            acc.count("histories_that_changed_interpreter_global_state")
            for which in df:
                # minimise: the method after which it changed alone, else the prefix; judged in fresh processes
                w = j = None
                for cand in ([seq[pos]], seq[:pos + 1]):
                    w = {"kind": "histstate", "which": which, "seq": [c3[i] for i in cand]}
                    j = judge_fresh(ctx.repo, w)
                    if j:
                        break
                if j:
                    cands.setdefault("history:global-state:%s" % which, []).append(
                        (len(w["seq"]), corpus[seq[pos]][3], w, "after %s: %s" % (corpus[seq[pos]][3], j[1])))
                else:
                    acc.harness_error("interpreter state change %r after %r did not reproduce in a fresh process"
                                      % (df, seq[:pos + 1]))
        reported = set()
        if r["h"][0] != alone[seq[0]]:
            acc.harness_error("text of %s decompiled alone differs between two fresh processes" % corpus[seq[0]][3])
        for pos in range(1, len(seq)):
            b = corpus[seq[pos]]
            acc.n += 1
            acc.nt_disjoint += 1
            acc.state((b[0], b[3], r["h"][pos]))
            acc.outcomes.add(h8(r["h"][pos]))
            if r["h"][pos] == alone[seq[pos]] or seq[pos] in reported:
                continue
            reported.add(seq[pos])
            # minimise: the adjacent pair alone, else the whole prefix; judged in fresh processes
            w = j = None
            for cand in ([seq[pos - 1], seq[pos]], seq[:pos + 1]):
                w = {"kind": "hist", "seq": [c3[i] for i in cand]}
                j = judge_fresh(ctx.repo, w)
                if j:
                    break
            key = "history:%s:%s" % (b[4], b[0])
            if j:
                cands.setdefault(key, []).append((len(w["seq"]), b[3], w, j[1]))
            else:
                acc.harness_error("history difference for %s after %r did not reproduce in fresh processes"
                                  % (b[3], seq[:pos]))
    acc.count(kind, sum(len(s) - 1 for s in seqs) if kind == "history_pairs_adjacent_in_chain" else len(seqs))


def _run_H(ctx, acc, cands, a0, a1):
    hc = _hcorpus(ctx.repo)
    n = len(hc["chain"])
    seqs = []
    for a in range(a0, a1):
        chain = []
        for b in range(n):
            chain += [a, b]                   # ... A B : every ordered pair (A, B) and (B, A') adjacent
        seqs.append(chain + [a])
    _hist_run(ctx, acc, cands, seqs, "history_pairs_adjacent_in_chain")
    if a0 == 0:
        acc.sample({"part": "H", "chain": [hc["corpus"][i][3] for i in seqs[0][:4]] + ["..."], "length": len(seqs[0]),
                    "corpus": n})


def _run_HX(ctx, acc, cands, As, Bs):
    seqs = [[a, b] for a in As for b in Bs]
    _hist_run(ctx, acc, cands, seqs, "history_pairs_exact")


def extreme_histories(hc):
    """every ordered pair over the four extreme methods (incl. twice the same) + each of them before and after each
    of three ordinary corpus methods (a switch, a try/catch, a loop method of classes.dex)"""
    X, O = hc["extreme"], hc["ord3"]
    return [[a, b] for a in X for b in X] + [[x, o] for x in X for o in O] + [[o, x] for x in X for o in O]


def _run_HE(ctx, acc, cands, k, nk):
    seqs = extreme_histories(_hcorpus(ctx.repo))[k::nk]
    _hist_run(ctx, acc, cands, seqs, "history_extreme_size_exact")


def _run_H3(ctx, acc, cands, a):
    sub = _hcorpus(ctx.repo)["sub"]
    seqs = [[a, b, c] for b in sub for c in sub if len({a, b, c}) == 3]
    _hist_run(ctx, acc, cands, seqs, "history_triples_exact")


# ------------------------------------------------------------------ vacuity self-test
def finalize(ctx, acc):
    _quiet()
    install()
    from androguard.decompiler.node import Node
    # toy check: the explored assignments really permute the iteration order of a real set of owned objects
    orders = set()
    CTL.ctr = 0
    objs = [Node("n%d" % i) for i in range(6)]
    for o, k in zip(objs, (3, 9, 17, 20, 41, 42)):
        o.__dict__["_c22k"] = k
    specs = [None] + [a for a, _ in family(ctx.thorough)] + [["swap", 3, 9], ["swap", 17, 42]]
    for spec in specs:
        CTL.fn = assignment(spec)
        try:
            s = set()
            for o in objs:
                s.add(o)
            orders.add(tuple(o.name for o in s))
        finally:
            CTL.fn = None
    acc.count("toy_set_distinct_orders", len(orders))
    if len(orders) < 6:
        acc.harness_error("hash assignments do not permute set iteration order (only %d orders on the toy set)" % len(orders))
    e = acc.extra
    e["hashseeds"] = len(seeds(ctx)) + 1
    e["deviation_bound"] = 2 if ctx.thorough else 1
    if e.get("methods_with_hashed_objects", 0) < 100:
        acc.harness_error("degenerate: only %d methods hash >= 2 owned objects" % e.get("methods_with_hashed_objects", 0))
    if e.get("transpositions", 0) < 1000 or e.get("hashseed_runs", 0) < 7 or e.get("history_pairs_adjacent_in_chain", 0) < 2500 or e.get("history_pairs_exact", 0) < 400 or e.get("history_extreme_size_exact", 0) < 40:
        acc.harness_error("degenerate space: %r" % (e,))
    if e.get("same_object_histories", 0) < 3 * e.get("methods", 0):
        acc.harness_error("same-object histories (repeat / reprocess / class-then-method) not run for every method")
    ngen = sum(all_sizes(ctx.repo)[GEN])
    if e.get("generated_methods", 0) != ngen or ngen < 900:
        acc.harness_error("generated corpus not (fully) explored: %r of %d" % (e.get("generated_methods"), ngen))
    if len(acc.states) < e.get("methods", 0) // 2:
        acc.harness_error("fewer observed states than methods/2")
