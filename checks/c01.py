"""C01  Dalvik instruction decoding is faithful for every operand encoding  (engine E1: finite-domain product).

Space: for each of the 256 opcodes the first code unit with every high byte (256) x every further code unit of
the format from the unit alphabet UNITS (full product for formats of <= 3 units; 4- and 5-unit formats use the
boundary subset BOUNDARY; thorough: full alphabet for the 4-unit formats and the ODEX jumbo table through
get_optimized_instruction).  Every encoding is presented four times: exact, with 1 and 2 trailing garbage units,
and truncated by one byte.
Oracle: gen/dalvik.decode (typed in from the Dalvik specification, independent of androguard).
"""
import itertools
import os
import pickle
import re
import struct
import traceback

from mc.core import Acc, h8
from gen import dalvik as D

PROPERTY = "C01"
LEVEL = "exploration"
UNITS = [0x0000, 0x0001, 0x000f, 0x0010, 0x00ff, 0x0100, 0x7fff, 0x8000, 0x8001, 0xfffe, 0xffff, 0x1234, 0xa5c3]
BOUNDARY = [0x0000, 0x0001, 0x7fff, 0x8000, 0xffff]
GARBAGE = bytes.fromhex("5aa5c33c")          # trailing garbage units (never equal to a prefix of a payload ident)
RULE = ("for each of the 256 opcodes: first code unit with all 256 high bytes x every further unit from a 13-value "
        "unit alphabet (5-value boundary subset for 4-5 unit formats; thorough: full alphabet for 4-unit formats + ODEX "
        "jumbo table), each presented exact / +1 / +2 trailing garbage units / truncated by one byte; a base encoding is "
        "non-trivial when some operand bit is set; base encodings are distinct by construction (enumeration index); "
        "history dimension: after an ODEX-mode sweep in the same process every unused opcode x 256 high bytes and every "
        "valid opcode x 3 high bytes x 3 operand words are judged again in DEX mode; opcode x DEX header version: for each "
        "version 035..041 one generated DEX file with one method per (opcode, canonical / all-ones-registers encoding), read "
        "back through DEX -> EncodedMethod -> DCode and judged like a direct decode")
ASSUMPTIONS = [
    "oracle = gen/dalvik.py opcode table and decoder typed in from the Dalvik bytecode specification",
    "spec-invalid encodings (reserved high byte != 0 in 10x/20t/30t/32x, 35c/45cc count > 5, 45cc count 0) may be rejected "
    "or decoded; when decoded only length and byte round trip are judged",
    "pool operands are compared as (operand kind, numeric index); the text a ClassManager resolves them to is not judged",
    "45cc/4rcc have no get_operands(); their registers and indices are read from get_output()",
    "ODEX formats (thorough) are outside the Dalvik specification: only length (format digit) and round trip are judged",
    "history dimension: 'an ODEX-mode linear sweep and an optimized-instruction decode ran earlier in the same process' "
    "(executed in a forked child so it cannot leak into other cases; the witness carries the history and replay runs it); "
    "other process histories are not explored",
    "opcode x DEX header version: files are written by gen/dexgen.py (trusted writer); call-site and method-handle "
    "sections cannot be emitted, those index operands are 0; the decoding must not depend on the header version",
]
MANIFEST = {
    "engine": "E1-product",
    "technique": "exhaustive operand-word enumeration per opcode against an independent reference decoder",
    "text": "Every opcode is decoded with every high byte of its first code unit and every combination of boundary values "
            "in its further code units (exact, with trailing garbage, truncated); length, byte round trip, mnemonic, "
            "registers, sign-extended/shifted literals, branch offsets and pool indices are compared field by field with a "
            "reference decoder written from the Dalvik specification; unused opcodes must be rejected.  Complete for the "
            "stated alphabet, which contains every sign/zero boundary of every operand field.",
    "note": "Trusted: gen/dalvik.py (opcode table + decoder, cross-checked on 26,147 real instructions).  Operand words "
            "other than the 13 alphabet values are not explored; resolved pool strings are not judged.",
}

LIT_FMT = {"11n", "21s", "21h", "22b", "22s", "31i", "51l"}
BRANCH_FMT = {"10t", "20t", "30t", "21t", "22t", "31t"}
REF_FMT = {"21c", "22c", "31c", "35c", "3rc"}
NIBBLE_FMT = {"12x", "11n", "22t", "22s", "22c", "35c", "45cc"}
# Kind enum member expected for the reference table's pool kinds (names from dex_types.Kind, values read lazily)
KIND_NAME = {"string": "STRING", "type": "TYPE", "field": "FIELD", "method": "METH", "proto": "PROTO",
             "call_site": "CALL_SITE", "method+proto": "METH_PROTO", "method_handle": "METHOD_HANDLE"}
ODEX_UNITS = {"Instruction41c": 4, "Instruction40sc": 4, "Instruction52c": 5, "Instruction5rc": 5}


# ----------------------------------------------------------------------------------- environment
class _Ref:
    def __init__(self, idx):
        self.idx = idx

    def get_class_name(self):
        return "Lc%d;" % self.idx

    def get_name(self):
        return "m%d" % self.idx

    def get_descriptor(self):
        return "()V"


class StubCM:
    """ClassManager stand-in that answers every pool lookup and logs (pool, index)."""

    def __init__(self, dex, odex=False):
        self.packer = dex.DalvikPacker(0x12345678)
        self.odex = odex
        self.log = []

    def get_odex_format(self):
        return self.odex

    def get_string(self, idx):
        self.log.append(("string", idx))
        return "s%d" % idx

    get_raw_string = get_string

    def get_type(self, idx):
        self.log.append(("type", idx))
        return "Lt%d;" % idx

    def get_field(self, idx):
        self.log.append(("field", idx))
        return ["Lc%d;" % idx, "I", "f%d" % idx]

    def get_method_ref(self, idx):
        self.log.append(("method", idx))
        return _Ref(idx)

    def get_proto(self, idx):
        self.log.append(("proto", idx))
        return ["()", "V"]


class Env:
    def __init__(self):
        from androguard.core import dex
        from androguard.core.dex import dex_types
        self.dex = dex
        self.cm = StubCM(dex)
        self.Invalid = dex.InvalidInstruction
        self.REG = int(dex_types.Operand.REGISTER)
        self.LIT = int(dex_types.Operand.LITERAL)
        self.OFF = int(dex_types.Operand.OFFSET)
        self.KIND = int(dex_types.Operand.KIND)
        self.kinds = {}
        for k, nm in KIND_NAME.items():
            m = getattr(dex_types.Kind, nm, None)
            self.kinds[k] = None if m is None else self.KIND + int(m)
        # the method-handle pool: whatever the member is called, it must not be another pool's kind
        self.other_pools = {v for k, v in self.kinds.items() if k != "method_handle" and v is not None}


# ----------------------------------------------------------------------------------- the judge
def _key(fmt, ref, aspect):
    if fmt == "31c" and ref is not None and ref.ref is not None and ref.ref >= 1 << 31:
        return "31c:index>=2^31"
    return "%s:%s" % (fmt, aspect)


_OUT45 = re.compile(r"^((?:v-?\d+, )*)(-?\d+), (-?\d+)$")
_OUT4R = re.compile(r"^v(-?\d+) \.\. v(-?\d+) (-?\d+) (-?\d+)$")


def judge(env, op, buf):
    """Decode `buf` (bytes starting at an instruction of opcode `op`; may carry trailing garbage or be truncated)
    with get_instruction and compare with the reference.  Returns (outcome, [(key, msg)])."""
    dex, cm = env.dex, env.cm
    fmt = D.OPC[op][1] if op in D.OPC else "unused"
    try:
        ref = D.decode(buf)
        why = None
    except D.Invalid as e:
        ref, why = None, ("unused" if op in D.UNUSED else "truncated")
    v = []
    try:
        ins = dex.get_instruction(cm, op, buf)
        rejected = False
    except env.Invalid:
        ins, rejected = None, True
    except Exception as e:     # noqa
        return "exc", [(_key(fmt, ref, "decode-exception"),
                        "get_instruction(0x%02x, %s) raised %s: %s" % (op, buf.hex(), type(e).__name__, e))]
    if ref is None:
        if rejected:
            return "rejected-" + why, v
        return "accepted-" + why, [("%s:%s" % (fmt, "accepted" if why == "unused" else "truncated-accepted"),
                                    "get_instruction(0x%02x, %s) returned %s %r; the reference says %s"
                                    % (op, buf.hex(), type(ins).__name__, _safe(ins.get_length), why))]
    if rejected:
        if ref.strict_ok:
            return "rejected-valid", [(_key(fmt, ref, "valid-rejected"),
                                       "get_instruction(0x%02x, %s) raised InvalidInstruction; valid %r"
                                       % (op, buf.hex(), ref))]
        return "rejected-nonstrict", v
    return _judge_decoded(env, ins, ref, op, buf)


def _judge_decoded(env, ins, ref, op, buf):
    """ins: what the library decoded from buf; ref: the reference decoding.  -> (outcome, [(key, msg)])"""
    fmt = ref.fmt
    v = []
    # ---- decoded: length and round trip are always required
    want_raw = bytes(buf[:ref.length])
    try:
        glen = ins.get_length()
    except Exception as e:     # noqa
        glen = "EXC:%s" % type(e).__name__
    if glen != ref.length:
        v.append((_key(fmt, ref, "length"), "%s: get_length()=%r, format %s has %d bytes" % (buf.hex(), glen, fmt, ref.length)))
    try:
        graw = bytes(ins.get_raw())
    except Exception as e:     # noqa
        graw = "EXC:%s: %s" % (type(e).__name__, e)
    if graw != want_raw:
        v.append((_key(fmt, ref, "roundtrip"), "%s: get_raw()=%s, expected the input slice %s"
                  % (buf.hex(), graw.hex() if isinstance(graw, bytes) else graw, want_raw.hex())))
    if not ref.strict_ok:
        return "decoded-nonstrict", v
    # ---- strictly valid encoding: meaning of every field
    try:
        if ins.get_op_value() != op:
            v.append((_key(fmt, ref, "op-value"), "%s: get_op_value()=%r" % (buf.hex(), ins.get_op_value())))
        if ins.get_name() != ref.name:
            v.append((_key(fmt, ref, "name"), "%s: get_name()=%r, spec mnemonic %r" % (buf.hex(), ins.get_name(), ref.name)))
    except Exception as e:     # noqa
        v.append((_key(fmt, ref, "accessor-exception"), "%s: get_op_value/get_name raised %s: %s" % (buf.hex(), type(e).__name__, e)))
    if fmt in ("45cc", "4rcc"):
        v += _judge_output(env, ins, ref, buf)
    else:
        v += _judge_operands(env, ins, ref, buf)
    sign = (ref.lit is not None and fmt in LIT_FMT and ref.lit < 0, ref.branch is not None and ref.branch < 0)
    return ("decoded", fmt, sign, len(ref.regs)), v


def _safe(f):
    try:
        return f()
    except Exception as e:     # noqa
        return "EXC:%s" % type(e).__name__


def _judge_operands(env, ins, ref, buf):
    fmt = ref.fmt
    v = []
    exp = [(env.REG, r) for r in ref.regs]
    if fmt in LIT_FMT:
        exp.append((env.LIT, ref.lit))
    if ref.branch is not None:
        exp.append((env.OFF, ref.branch))
    env.cm.log = []
    try:
        ops = ins.get_operands()
        got = [(int(t[0]), t[1]) for t in ops]
    except Exception as e:     # noqa
        return [(_key(fmt, ref, "accessor-exception"), "%s: get_operands() raised %s: %s" % (buf.hex(), type(e).__name__, e))]
    lookups = list(env.cm.log)
    hx = buf.hex()
    if fmt in REF_FMT:
        ek0 = env.kinds[ref.kind]
        if ref.kind == "method_handle" and got and got[-1][0] >= env.KIND and got[-1][0] not in env.other_pools:
            ek0 = got[-1][0]          # any kind value that is not the kind of a different pool
        exp.append((ek0, ref.ref))
    if got != exp:
        pick = lambda l, k: [x[1] for x in l if x[0] == k]      # noqa
        sub = False
        if pick(got, env.REG) != pick(exp, env.REG):
            sub = True
            v.append((_key(fmt, ref, "register-nibbles" if fmt in NIBBLE_FMT else "registers"),
                      "%s: registers %r, spec %r (%r)" % (hx, pick(got, env.REG), pick(exp, env.REG), ref)))
        if pick(got, env.LIT) != pick(exp, env.LIT):
            sub = True
            v.append((_key(fmt, ref, _lit_aspect(ref)), "%s: literal %r, spec %r (%r)" % (hx, pick(got, env.LIT), pick(exp, env.LIT), ref)))
        if pick(got, env.OFF) != pick(exp, env.OFF):
            sub = True
            v.append((_key(fmt, ref, "branch-sign" if ref.branch is not None and ref.branch < 0 else "branch"),
                      "%s: branch offset %r, spec %r (%r)" % (hx, pick(got, env.OFF), pick(exp, env.OFF), ref)))
        gk = [x for x in got if x[0] >= env.KIND]
        ek = [x for x in exp if x[0] is None or x[0] >= env.KIND]
        if gk != ek:
            sub = True
            if [x[1] for x in gk] != [x[1] for x in ek]:
                v.append((_key(fmt, ref, "index"), "%s: pool index %r, spec %r (%r)" % (hx, gk, ek, ref)))
            else:
                v.append((_key(fmt, ref, "pool-kind:" + ref.name),
                          "%s: operand kind %r, spec kind %s (Kind.%s -> %r) (%r)"
                          % (hx, [x[0] for x in gk], ref.kind, KIND_NAME[ref.kind], [x[0] for x in ek], ref)))
        if not sub:
            v.append((_key(fmt, ref, "operand-order"), "%s: get_operands() %r, spec order %r" % (hx, got, exp)))
    elif fmt in REF_FMT and lookups and any(l != (ref.kind, ref.ref) for l in lookups):
        v.append((_key(fmt, ref, "pool-lookup:" + ref.name), "%s: resolved through %r, spec %s@%d" % (hx, lookups, ref.kind, ref.ref)))
    # dedicated accessors
    try:
        gl = list(ins.get_literals())
    except Exception as e:     # noqa
        gl = "EXC:%s" % type(e).__name__
    el = [ref.lit] if fmt in LIT_FMT else []
    if gl != el and not any(k.split(":")[1].startswith("literal") for k, _ in v):
        v.append((_key(fmt, ref, "get_literals"), "%s: get_literals()=%r, spec %r" % (hx, gl, el)))
    if fmt in BRANCH_FMT:
        go = _safe(ins.get_ref_off)
        if go != ref.branch and not any(k.split(":")[1].startswith("branch") for k, _ in v):
            v.append((_key(fmt, ref, "get_ref_off"), "%s: get_ref_off()=%r, spec %r" % (hx, go, ref.branch)))
    if fmt in REF_FMT:
        gr = _safe(ins.get_ref_kind)
        if gr != ref.ref and not any(k.split(":")[1] == "index" for k, _ in v):
            v.append((_key(fmt, ref, "get_ref_kind"), "%s: get_ref_kind()=%r, spec %r" % (hx, gr, ref.ref)))
    return v


def _lit_aspect(ref):
    if ref.fmt == "21h":
        return "literal-sign" if ref.lit < 0 else "literal-shift"
    return "literal-sign" if ref.lit < 0 else "literal"


def _judge_output(env, ins, ref, buf):
    fmt, hx = ref.fmt, buf.hex()
    try:
        out = ins.get_output()
    except Exception as e:     # noqa
        return [(_key(fmt, ref, "accessor-exception"), "%s: get_output() raised %s: %s" % (hx, type(e).__name__, e))]
    if fmt == "45cc":
        m = _OUT45.match(out or "")
        if not m:
            return [(_key(fmt, ref, "output"), "%s: get_output()=%r not 'vC, .., meth, proto'" % (hx, out))]
        regs = [int(x[1:]) for x in m.group(1).split(", ") if x]
        idx, proto = int(m.group(2)), int(m.group(3))
        v = []
        if regs != ref.regs:
            v.append((_key(fmt, ref, "register-nibbles"), "%s: registers %r, spec %r" % (hx, regs, ref.regs)))
    else:
        m = _OUT4R.match(out or "")
        if not m:
            return [(_key(fmt, ref, "output"), "%s: get_output()=%r not 'vC .. vN meth proto'" % (hx, out))]
        first, last, idx, proto = (int(x) for x in m.groups())
        v = []
        u = struct.unpack_from("<4H", buf)
        if (first, last) != (u[2], u[2] + (u[0] >> 8) - 1):
            v.append((_key(fmt, ref, "registers"), "%s: range v%d..v%d, spec v%d..v%d (N = C + A - 1)"
                      % (hx, first, last, u[2], u[2] + (u[0] >> 8) - 1)))
    if (idx, proto) != (ref.ref, ref.ref2):
        v.append((_key(fmt, ref, "index"), "%s: meth@%d proto@%d, spec meth@%d proto@%d" % (hx, idx, proto, ref.ref, ref.ref2)))
    return v


def judge_odex(env, op16, buf):
    """ODEX jumbo table: only length (format digit of the class) and byte round trip."""
    dex = env.dex
    cls = dex.DALVIK_OPCODES_OPTIMIZED[op16][0]
    n = ODEX_UNITS[cls.__name__]
    fmt = "odex-" + cls.__name__[len("Instruction"):]
    short = len(buf) < 2 * n
    try:
        ins = dex.get_optimized_instruction(env.cm, op16, buf)
    except env.Invalid:
        if short:
            return "rejected-truncated", []
        return "rejected", [(fmt + ":valid-rejected", "get_optimized_instruction(0x%04x, %s) raised InvalidInstruction" % (op16, buf.hex()))]
    except Exception as e:     # noqa
        return "exc", [(fmt + ":decode-exception", "get_optimized_instruction(0x%04x, %s) raised %s: %s" % (op16, buf.hex(), type(e).__name__, e))]
    if short:
        return "accepted-truncated", [(fmt + ":truncated-accepted", "%s decoded from %d bytes" % (buf.hex(), len(buf)))]
    v = []
    if _safe(ins.get_length) != 2 * n:
        v.append((fmt + ":length", "%s: get_length()=%r, expected %d" % (buf.hex(), _safe(ins.get_length), 2 * n)))
    raw = _safe(ins.get_raw)
    if raw != buf[:2 * n]:
        v.append((fmt + ":roundtrip", "%s: get_raw()=%r" % (buf.hex(), raw)))
    extra = None
    if cls.__name__ == "Instruction5rc":
        nreg = len([1 for t in ins.get_operands() if int(t[0]) == env.REG])
        aaaa = struct.unpack_from("<H", buf, 6)[0]
        if nreg != aaaa:
            extra = "5rc-range"
    return ("decoded", fmt, extra), v


# ----------------------------------------------------------------------------------- opcode x DEX header version
DEX_VERSIONS = ("035", "036", "037", "038", "039", "040", "041")
_DV_CLS = "La/T;"


def _dv_args(op, variant, ix):
    """Arguments for gen.dalvik.enc: canonical (variant 0) / all-ones registers (variant 1) encoding of opcode op whose
    pool index refers to an entry that exists in the generated file (call sites and method handles cannot be emitted
    by gen/dexgen: index 0)."""
    name, fmt, kind = D.OPC[op]
    idx = {None: 0, "string": lambda: ix.string("s"), "type": lambda: ix.type(_DV_CLS),
           "field": lambda: ix.field(_DV_CLS, "f", "I"), "method": lambda: ix.method(_DV_CLS, "callee", "V", ()),
           "proto": lambda: ix.proto("V", ()), "method+proto": lambda: ix.method(_DV_CLS, "callee", "V", ()),
           "call_site": lambda: 0, "method_handle": lambda: 0}[kind]
    idx = idx() if callable(idx) else idx
    one = variant == 1
    r4, r8, r16 = (15, 255, 0xffff) if one else (1, 1, 1)
    table = {
        "10x": (), "12x": (r4, 2 if not one else 15), "11n": (r4, -3), "11x": (r8,), "10t": (3,), "20t": (3,), "30t": (3,),
        "22x": (r8, r16), "21t": (r8, -2), "21s": (r8, -5), "21h": (r8, 0x8001), "21c": (r8, idx),
        "23x": (r8, 2 if not one else 255, 3 if not one else 255), "22b": (r8, 2 if not one else 255, -7),
        "22t": (r4, 2 if not one else 15, 3), "22s": (r4, 2 if not one else 15, -9), "22c": (r4, 2 if not one else 15, idx),
        "32x": (r16, 2 if not one else 0xffff), "31t": (r8, 3), "31i": (r8, -0x12345), "31c": (r8, idx),
        "35c": (idx, [1, 2] if not one else [15] * 5), "3rc": (idx, 1, 2) if not one else (idx, 0xff01, 0xff),
        "51l": (r8, -0x123456789),
    }
    if fmt == "45cc":
        return (idx, [1, 2] if not one else [15] * 5, ix.proto("V", ()))
    if fmt == "4rcc":
        return ((idx, 1, 2) if not one else (idx, 0xff01, 0xff)) + (ix.proto("V", ()),)
    return table[fmt]


def _dv_methods():
    """[(method name, opcode, variant)]: one method per (opcode, variant); unused opcodes get one method each."""
    out = []
    for op in range(256):
        for variant in ((0, 1) if op in D.OPC else (0,)):
            out.append(("o%02x_%d" % (op, variant), op, variant))
    return out


def build_version_dex(version, only=None):
    from gen import dexgen as G

    def code(op, variant):
        if op not in D.OPC:
            return lambda ix: bytes((op, 0))
        return lambda ix: D.enc(op, *_dv_args(op, variant, ix))
    ms = [G.Method("callee", "V", (), G.ACC_STATIC | G.ACC_PUBLIC, G.Code(1, 0, 0, D.enc("return-void")))]
    for name, op, variant in _dv_methods():
        if only is None or (op, variant) in only:
            ms.append(G.Method(name, "V", (), G.ACC_STATIC | G.ACC_PUBLIC, G.Code(256, 0, 0, code(op, variant))))
    return G.build(G.Dex([G.Class(_DV_CLS, sfields=[G.Field("f", "I", G.ACC_STATIC | G.ACC_PUBLIC)], dmethods=ms)],
                         version=version.encode()))


def judge_version(env, version, only=None):
    """One generated DEX file with header version `version`, one static method per (opcode, variant); every method's
    single instruction is read back through DEX -> EncodedMethod -> DalvikCode -> DCode.get_instructions and compared
    with the reference exactly like a directly decoded one.  The opcode table does not depend on the file version.
    -> [(op, variant, outcome, [(key, msg)])]"""
    dex = env.dex
    raw = build_version_dex(version, only)
    out = []
    try:
        vm = dex.DEX(raw)
        methods = {m.get_name(): m for m in vm.get_classes()[0].get_methods()}
    except Exception as e:     # noqa
        return [(0, 0, "load-failed", [("dex-version:%s:load" % version, "DEX %s does not load: %s: %s" % (version, type(e).__name__, e))])]
    for name, op, variant in _dv_methods():
        if only is not None and (op, variant) not in only:
            continue
        fmt = D.OPC[op][1] if op in D.OPC else "unused"
        pre = "dex-version:%s:" % version
        m = methods[name]
        dc = m.get_code()
        n = dc.insns_size * 2
        off = dc.get_off() + 16
        buf = bytes(raw[off:off + n])
        tag = "DEX %s, method %s, code %s" % (version, name, buf.hex())
        try:
            got = list(dc.get_bc().get_instructions())
            exc = None
        except dex.InvalidInstruction as e:
            got, exc = None, e
        except Exception as e:     # noqa
            out.append((op, variant, "exc", [(pre + fmt + ":decode-exception", "%s: %s: %s" % (tag, type(e).__name__, e))]))
            continue
        if op not in D.OPC:
            if exc is None:
                out.append((op, variant, "accepted-unused", [(pre + "unused:accepted", "%s: unused opcode decoded as %r"
                                                            % (tag, [_safe(i.get_name) for i in got]))]))
            else:
                out.append((op, variant, "rejected-unused", []))
            continue
        ref = D.decode(buf)
        if exc is not None:
            out.append((op, variant, "rejected-valid", [(pre + fmt + ":valid-rejected", "%s: valid %r rejected: %s" % (tag, ref, exc))]))
            continue
        if len(got) != 1:
            out.append((op, variant, "count", [(pre + fmt + ":length", "%s: %d instructions for one %s" % (tag, len(got), ref.name))]))
            continue
        outcome, viols = _judge_decoded(env, got[0], ref, op, buf)
        out.append((op, variant, outcome, [(pre + k, "%s: %s" % (tag, msg)) for k, msg in viols]))
    return out


# ----------------------------------------------------------------------------------- the space
def _n_units(op):
    return D.units(D.OPC[op][1]) if op in D.OPC else 1


def _alphabet(op, thorough):
    n = _n_units(op)
    if n <= 3 or (n == 4 and thorough):
        return UNITS
    return BOUNDARY


def _bases(op, thorough):
    n = _n_units(op)
    return 256 * len(_alphabet(op, thorough)) ** (n - 1)


def space(ctx):
    per_units = {}
    for op in range(256):
        per_units.setdefault(_n_units(op), 0)
        per_units[_n_units(op)] += _bases(op, ctx.thorough)
    d = {"opcodes": 256, "unused_opcodes": len(D.UNUSED), "first_unit_high_bytes": 256,
         "unit_alphabet": ["%04x" % u for u in UNITS], "boundary_subset": ["%04x" % u for u in BOUNDARY],
         "full_alphabet_up_to_units": 4 if ctx.thorough else 3,
         "presentations": ["exact", "+1 garbage unit", "+2 garbage units", "truncated by one byte"],
         "base_encodings_by_units": {str(k): v for k, v in sorted(per_units.items())},
         "base_encodings": sum(per_units.values())}
    d["dex_header_versions"] = {"versions": list(DEX_VERSIONS), "opcodes": 256, "methods_per_file": len(_dv_methods()),
                                "cases": len(DEX_VERSIONS) * len(_dv_methods())}
    d["histories"] = {h: {"what": t, "rejudged_base_encodings": len(D.UNUSED) * 256 + len(D.OPC) * len(HIST_HI) * len(HIST_UNITS)}
                      for h, t in HISTORIES.items()}
    if ctx.thorough:
        d["odex_jumbo_opcodes"] = 14
    return d


TARGET = 24000


def shards(ctx):
    out, cur, cur_n = [], [], 0
    for op in range(256):
        b = _bases(op, ctx.thorough)
        if b > 2 * TARGET:
            if cur:
                out.append(("ops", tuple(cur), 0, 256)); cur, cur_n = [], 0
            parts = 1
            while b // parts > 2 * TARGET and parts < 256:
                parts *= 2
            step = 256 // parts
            out += [("ops", (op,), lo, lo + step) for lo in range(0, 256, step)]
        else:
            cur.append(op); cur_n += b
            if cur_n >= TARGET:
                out.append(("ops", tuple(cur), 0, 256)); cur, cur_n = [], 0
    if cur:
        out.append(("ops", tuple(cur), 0, 256))
    out += [("hist", h, part) for h in sorted(HISTORIES) for part in ("unused", "valid")]
    out += [("dexver", v) for v in DEX_VERSIONS]
    if ctx.thorough:
        out += [("odex", op16) for op16 in range(0xf2ff, 0x10000, 0x100)]
    return out


def _present(acc, env, op, base, judge_fn, opkey, hist=None, before=None):
    """The four presentations of one base encoding (hist: the history already executed in this process; before: set that
    collects / holds the (buffer, key) pairs violated BEFORE the history - those belong to the plain shards)."""
    for buf in (base, base + GARBAGE[:2], base + GARBAGE, base[:-1]):
        outcome, viols = judge_fn(env, opkey, buf)
        if before is not None and not hist:
            before.update((buf, k) for k, _ in viols)
            continue
        if before:
            viols = [(k, m) for k, m in viols if (buf, k) not in before]
        acc.n += 1
        acc._oc.add((outcome if isinstance(outcome, tuple) else (outcome, len(buf) - len(base))) + ((hist,) if hist else ()))
        name = outcome if isinstance(outcome, str) else "decoded-strict"
        acc.count(hist + ":" + name if hist else name)
        for key, msg in viols:
            w = {"op": opkey, "buf": buf.hex()}
            if judge_fn is judge_odex:
                w["mode"] = "odex"
            if hist:
                w["history"] = hist
                key, msg = key + ":" + hist, "[%s] %s" % (HISTORIES[hist], msg)
            acc.violation(key, w, msg)


# ----------------------------------------------------------------------------------- history dimension
HISTORIES = {"after-odex-sweep": "earlier in this process an ODEX-mode linear sweep and an optimized-instruction decode ran"}
ODEX_HISTORY_CODE = struct.pack("<8H", 0xf9ff, 0x0001, 0x0000, 0x0002, 0xffff, 0x0003, 0x0000, 0x000e)
HIST_HI = (0x00, 0x21, 0xff)
HIST_UNITS = (0x0000, 0x8001, 0xffff)


def run_history(env, hist):
    """Execute the history in this process; returns what it observed (not judged: ODEX is outside the spec table)."""
    assert hist == "after-odex-sweep", hist
    dex = env.dex
    ocm = StubCM(dex, odex=True)
    seen = []
    try:
        for ins in dex.LinearSweepAlgorithm.get_instructions(ocm, len(ODEX_HISTORY_CODE) // 2, ODEX_HISTORY_CODE, 0):
            seen.append(ins.get_name())
    except Exception as e:     # noqa
        seen.append("EXC:" + type(e).__name__)
    try:
        seen.append(dex.get_optimized_instruction(ocm, 0xf2ff, struct.pack("<5H", 0xf2ff, 1, 0, 2, 3)).get_name())
    except Exception as e:     # noqa
        seen.append("EXC:" + type(e).__name__)
    return seen


def hist_cases(part):
    """DEX-mode cases re-judged after a history: every unused opcode x every high byte; every valid opcode x 3 high
    bytes x 3 uniform operand words."""
    if part == "unused":
        for op in sorted(D.UNUSED):
            for h in range(256):
                yield op, bytes((op, h))
    else:
        for op in sorted(D.OPC):
            n = _n_units(op)
            for u in HIST_UNITS:
                for h in HIST_HI:
                    yield op, bytes((op, h)) + struct.pack("<%dH" % (n - 1), *([u] * (n - 1)))


def _in_child(fn):
    """Run fn() in a forked child and return its (picklable) result: histories change process-global state and must
    not leak into the cases a pool worker judges afterwards."""
    r, w = os.pipe()
    pid = os.fork()
    if pid == 0:
        code = 0
        try:
            os.close(r)
            try:
                data = pickle.dumps(("ok", fn()))
            except BaseException:     # noqa
                data = pickle.dumps(("err", traceback.format_exc()))
            with os.fdopen(w, "wb") as f:
                f.write(data)
        except BaseException:     # noqa
            code = 1
        finally:
            os._exit(code)
    os.close(w)
    with os.fdopen(r, "rb") as f:
        data = f.read()
    os.waitpid(pid, 0)
    if not data:
        raise RuntimeError("history child died without a result")
    st, val = pickle.loads(data)
    if st != "ok":
        raise RuntimeError("history child failed:\n" + val)
    return val


def run_shard(ctx, shard):
    if shard[0] in ("hist", "odex"):
        return _in_child(lambda: _run_shard(ctx, shard))
    return _run_shard(ctx, shard)


def _run_shard(ctx, shard):
    env = Env()
    acc = Acc()
    acc._oc = set()
    if shard[0] == "dexver":
        ver = shard[1]
        for op, variant, outcome, viols in judge_version(env, ver):
            acc.n += 1
            acc.nt_disjoint += 1
            acc.count("dex_version_cases")
            acc._oc.add(("dexver", ver) + (outcome if isinstance(outcome, tuple) else (outcome,)))
            for key, msg in viols:
                acc.violation(key, {"dex_version": ver, "op": op, "variant": variant}, msg)
        if ver == "038":
            acc.sample({"dex_version": ver, "methods": len(_dv_methods()), "each": "one instruction of one opcode, canonical / all-ones registers"})
    elif shard[0] == "hist":
        _, hist, part = shard
        before = set()
        for op, base in hist_cases(part):           # same process, before the history: what fails anyway
            _present(acc, env, op, base, judge, op, before=before)
        seen = run_history(env, hist)
        acc.count(hist + ":history-instructions", len([x for x in seen if not x.startswith("EXC:")]))
        for op, base in hist_cases(part):
            _present(acc, env, op, base, judge, op, hist=hist, before=before)
            acc.nt_disjoint += 1
            acc.count(hist + ":bases")
        if part == "unused":
            acc.sample({"history": hist, "history_observed": seen, "then": "f100 (unused opcode) in DEX mode"})
    elif shard[0] == "odex":
        op16 = shard[1]
        cls = env.dex.DALVIK_OPCODES_OPTIMIZED[op16][0]
        n = ODEX_UNITS[cls.__name__]
        for rest in itertools.product(UNITS, repeat=n - 1):
            base = struct.pack("<%dH" % n, op16, *rest)
            _present(acc, env, op16, base, judge_odex, op16)
            acc.nt_disjoint += 1 if any(rest) else 0
            acc.count("odex_bases")
        if ("decoded", "odex-5rc", "5rc-range") in acc._oc:
            acc.note("ODEX 5rc: get_operands() lists a register count different from AAAA (range(CCCC, NNNN) excludes "
                     "vNNNN); ODEX formats are outside the specification table, recorded, not judged")
        acc.count("odex_opcodes")
    else:
        _, ops, lo, hi = shard
        for op in ops:
            n = _n_units(op)
            alpha = _alphabet(op, ctx.thorough)
            # simplest first: zero operand words, low high bytes
            for rest in itertools.product(alpha, repeat=n - 1):
                tail = struct.pack("<%dH" % (n - 1), *rest)
                nz = any(rest)
                for h in range(lo, hi):
                    _present(acc, env, op, bytes((op, h)) + tail, judge, op)
                    if nz or h:
                        acc.nt_disjoint += 1
            if lo == 0:
                acc.count("opcodes")
            if op in (0x12, 0xd8, 0x6e) and lo == 0:
                b = bytes((op, 0x21)) + struct.pack("<%dH" % (n - 1), *([0x8001, 0xa5c3][:n - 1]))
                acc.sample({"buf": b.hex(), "reference": repr(D.decode(b))})
    for o in acc._oc:
        acc.outcomes.add(h8(o))
    del acc._oc
    return acc


def replay(ctx, w):
    env = Env()
    if "dex_version" in w:
        res = judge_version(env, w["dex_version"], only={(w["op"], w["variant"])})
        viols = [kv for r in res for kv in r[3]]
        return "\n".join("%s: %s" % kv for kv in viols) or None
    buf = bytes.fromhex(w["buf"])
    if w.get("history"):
        run_history(env, w["history"])          # the replay process is fresh: execute the history first
    if w.get("mode") == "odex":
        _, viols = judge_odex(env, w["op"], buf)
    else:
        _, viols = judge(env, w["op"], buf)
    if viols:
        return "\n".join("%s: %s" % kv for kv in viols)
    return None


def finalize(ctx, acc):
    sp = space(ctx)
    want = 4 * sp["base_encodings"]
    if ctx.thorough:
        if acc.extra.get("odex_opcodes", 0) != 14:
            acc.harness_error("ODEX table: %d of 14 opcodes explored" % acc.extra.get("odex_opcodes", 0))
        ob = 7 * 13 ** 4 + 7 * 13 ** 3          # 5rc + 6 x 52c (5 units); 6 x 41c + 40sc (4 units)
        if acc.extra.get("odex_bases", 0) != ob:
            acc.harness_error("ODEX base encodings %d != %d" % (acc.extra.get("odex_bases", 0), ob))
        want += 4 * ob
    hb = acc.extra.get("after-odex-sweep:bases", 0)
    if hb != len(D.UNUSED) * 256 + len(D.OPC) * len(HIST_HI) * len(HIST_UNITS):
        acc.harness_error("history dimension: %d base encodings re-judged after the ODEX sweep" % hb)
    if acc.extra.get("after-odex-sweep:history-instructions", 0) < 2:
        acc.note("the ODEX-mode history sweep itself yielded fewer than 2 instructions per run (ODEX decoding is not judged)")
    want += 4 * hb
    dv = len(DEX_VERSIONS) * len(_dv_methods())
    if acc.extra.get("dex_version_cases", 0) != dv:
        acc.harness_error("opcode x DEX version: %d of %d cases" % (acc.extra.get("dex_version_cases", 0), dv))
    want += dv
    if acc.n != want:
        acc.harness_error("evaluations %d != 4 presentations x base encodings = %d" % (acc.n, want))
    if acc.extra.get("opcodes", 0) != 256:
        acc.harness_error("only %d of 256 opcodes explored" % acc.extra.get("opcodes", 0))
    if acc.extra.get("rejected-unused", 0) != len(D.UNUSED) * 256 * 4:
        # every presentation of every unused opcode must have been rejected or reported
        if not any(k.startswith("unused:") for k in acc.viol):
            acc.harness_error("unused-opcode rejections %d != %d and no violation reported"
                              % (acc.extra.get("rejected-unused", 0), len(D.UNUSED) * 256 * 4))
    for need in ("decoded-strict", "rejected-truncated"):
        if not acc.extra.get(need):
            acc.harness_error("vacuous: no case with outcome %s" % need)
    if len(acc.outcomes) < 60:
        acc.harness_error("vacuous: only %d distinct outcome classes (format x sign x register count)" % len(acc.outcomes))
