"""C24  Type descriptors are rendered as the right Java type names  (engine E1: finite-domain product).

Space: 9 primitives; class descriptors = every package path of depth 0..3 (thorough 0..4) over the segment
alphabet SEGS x every simple name of NAMES; every element type wrapped in 0..3 (thorough 0..4) array dimensions
(void is not an array element); `size` argument in {None, 0, 7}; both `androguard.decompiler.util.get_type` and
`androguard.core.dex.get_type`.

Oracle (written here, independent of the code under test): the element type is rendered as the primitive keyword
or as the dotted class name; the canonical form drops `java.lang.` only when the class is a direct member of
java.lang (exactly the two package segments java, lang); one bracket pair per array dimension.
  * util.get_type must give the canonical form.
  * dex.get_type may give the canonical or the fully qualified form (DESIGN section 11).
  * `$` of nested names is left as is.
  * `size` (no caller in the tree passes it): the statement does not speak about it.  Judged only: the number of
    bracket pairs equals the number of dimensions, a pair is empty or holds str(size), at most one pair holds it.
    Whether the size is printed at all and in which pair (HEAD: the last pair, `int[][7]`) is NOT judged.

The result is split into (element text, bracket pairs) and the two parts are judged separately, so a wrong element
name under an array is keyed by the shape of the element descriptor and a wrong bracket structure by the dimension.
"""
import itertools
import re

from mc.core import Acc

PROPERTY = "C24"
LEVEL = "exploration"
RULE = ("full product: (9 primitives + every package path of depth 0..3 (thorough 0..4) over a 10-segment alphabet x 6 "
        "simple names) x array depth 0..3 (thorough 0..4) x size {None,0,7} x {util.get_type, dex.get_type}; "
        "non-trivial = class descriptor or array; distinct by (function, descriptor, size), measured by hash")
ASSUMPTIONS = [
    "the reference naming rules (25 lines in checks/c24.py) are trusted",
    "the size argument is judged only for bracket structure; presence/position of the printed size is not judged",
    "DvClass.get_source field/parameter/return positions are not rendered (no DEX generator); it is checked that "
    "writer.get_type and basic_blocks.get_type are the very function util.get_type that is enumerated",
]
MANIFEST = {
    "engine": "E1-product",
    "technique": "exhaustive product of descriptor shapes against a reference naming model",
    "text": "Every primitive, every class descriptor built from a 10-segment package alphabet (java, javax, lang, "
            "language, langx, ref, annotation, a, l, ja) to depth 3 with 6 simple names, in 0-3 array dimensions and with "
            "size None/0/7, is rendered by decompiler.util.get_type and dex.get_type and compared with the Java name "
            "computed by an independent reference; complete for the stated alphabet and bound, which contains every "
            "java.lang subpackage / look-alike-package shape the statement singles out.",
    "note": "Trusted: the reference naming function in checks/c24.py. dex.get_type may answer canonical or fully "
            "qualified. The printed array size is judged for bracket structure only. get_source positions are covered "
            "by identity of the function objects used by the writer, not by rendering a DEX.",
}

PRIMS = {"V": "void", "Z": "boolean", "B": "byte", "S": "short", "C": "char",
         "I": "int", "J": "long", "F": "float", "D": "double"}
SEGS = ["java", "javax", "lang", "language", "langx", "ref", "annotation", "a", "l", "ja"]
NAMES = ["String", "Long", "annotation", "a", "L", "Object$1"]
SIZES = [None, 0, 7]
NSHARDS = 40


def _bounds(ctx):
    return (4, 4) if ctx.thorough else (3, 3)     # (package depth, array depth)


def space(ctx):
    pd, ad = _bounds(ctx)
    return {"primitives": sorted(PRIMS), "package_segments": SEGS, "package_depth": [0, pd], "simple_names": NAMES,
            "array_depth": [0, ad], "size_argument": [repr(s) for s in SIZES],
            "functions": ["androguard.decompiler.util.get_type", "androguard.core.dex.get_type"]}


# ---------------------------------------------------------------------------------- reference model
def ref_element(desc):
    """(canonical, fully qualified) Java name of a non-array descriptor; None if it is not one."""
    if desc in PRIMS:
        return PRIMS[desc], PRIMS[desc]
    if len(desc) >= 3 and desc[0] == "L" and desc[-1] == ";":
        parts = desc[1:-1].split("/")
        if any(p == "" for p in parts):
            return None
        qualified = ".".join(parts)
        if len(parts) == 3 and parts[0] == "java" and parts[1] == "lang":
            return parts[2], qualified
        return qualified, qualified
    return None


def split_desc(desc):
    dims = len(desc) - len(desc.lstrip("["))
    return dims, desc[dims:]


def shape(elem):
    """Input-side class of an element descriptor (used in violation keys)."""
    if elem in PRIMS:
        return "primitive"
    parts = elem[1:-1].split("/")
    pkg = parts[:-1]
    if not pkg:
        return "default-package"
    if pkg == ["java", "lang"]:
        return "java.lang-direct"
    if pkg[:2] == ["java", "lang"]:
        return "java.lang-subpackage"
    if elem.startswith("Ljava/lang"):
        return "lookalike-package"            # java/language/.., java/langx/..  (text prefix only)
    for i in range(1, len(pkg) - 1):
        if pkg[i:i + 2] == ["java", "lang"]:
            return "java.lang-not-at-start"
    if pkg[0] in ("java", "javax", "ja"):
        return "java-other-package"
    return "other-package"


_RES = re.compile(r"^(.*?)((?:\[[^\[\]]*\])*)$", re.S)
_PAIR = re.compile(r"\[([^\[\]]*)\]")


def judge(fname, fn, desc, size):
    """Returns (got, None) or (got, (key, msg)).  Shared by run_shard and replay."""
    dims, elem = split_desc(desc)
    want = ref_element(elem)
    assert want is not None, desc
    canon, qual = want
    try:
        got = fn(desc) if size is None else fn(desc, size)
    except Exception as e:      # noqa
        return "EXC", ("%s:%s:raises" % (fname, shape(elem)),
                       "%s.get_type(%r, %r) raised %s: %s" % (fname, desc, size, type(e).__name__, e))
    call = "%s.get_type(%r%s)" % (fname, desc, "" if size is None else ", %r" % (size,))
    if not isinstance(got, str):
        return repr(got), ("%s:%s:not-a-string" % (fname, shape(elem)), "%s returned %r" % (call, got))
    m = _RES.match(got)
    g_elem, g_br = m.group(1), _PAIR.findall(m.group(2))
    allowed = (canon,) if fname == "util" else (canon, qual)
    if g_elem not in allowed:
        return got, ("%s:%s" % (fname, shape(elem)),
                     "%s = %r: element type rendered %r, expected %s"
                     % (call, got, g_elem, " or ".join(repr(a) for a in allowed)))
    ok_br = len(g_br) == dims
    if ok_br:
        if size is None:
            ok_br = all(b == "" for b in g_br)
        else:
            ok_br = all(b in ("", str(size)) for b in g_br) and sum(1 for b in g_br if b != "") <= 1
    if not ok_br:
        return got, ("%s:array:dim%d%s" % (fname, dims, "" if size is None else ":sized"),
                     "%s = %r: %d bracket pair(s) %r for %d dimension(s)" % (call, got, len(g_br), g_br, dims))
    return got, None


# ---------------------------------------------------------------------------------- enumeration
def elements(ctx):
    """Simplest first: primitives, then classes by package depth, then by length of the descriptor."""
    pd, _ = _bounds(ctx)
    out = list("ZBSCIJFDV")
    for d in range(pd + 1):
        level = ["L" + "/".join(pkg + (n,)) + ";" for pkg in itertools.product(SEGS, repeat=d) for n in NAMES]
        out += sorted(level, key=lambda x: (len(x), x))
    return out


def shards(ctx):
    return [("elems", i) for i in range(NSHARDS)]


def _fns():
    from androguard.decompiler import util
    from androguard.core import dex
    return (("util", util.get_type), ("dex", dex.get_type))


def run_shard(ctx, shard):
    acc = Acc()
    fns = _fns()
    _, ad = _bounds(ctx)
    allel = elements(ctx)
    per = -(-len(allel) // NSHARDS)            # contiguous blocks: shard 0 holds the simplest descriptors
    for k in range(shard[1] * per, min(len(allel), (shard[1] + 1) * per)):
        elem = allel[k]
        sh = shape(elem)
        for dims in range(ad + 1):
            if dims and elem == "V":
                continue
            desc = "[" * dims + elem
            for size in SIZES:
                for fname, fn in fns:
                    got, bad = judge(fname, fn, desc, size)
                    nt = (fname, desc, size) if (dims or elem not in PRIMS) else None
                    acc.case(nontrivial=nt, outcome=got)
                    acc.count("shape:" + sh)
                    if bad:
                        acc.violation(bad[0], {"fn": fname, "desc": desc, "size": size}, bad[1])
        if k % per == 3:
            acc.sample({"desc": "[[" + elem, "size": 7, "util": fns[0][1]("[[" + elem, 7), "dex": fns[1][1]("[[" + elem, 7)})
    return acc


def replay(ctx, w):
    fns = dict(_fns())
    _, bad = judge(w["fn"], fns[w["fn"]], w["desc"], w["size"])
    return bad[1] if bad else None


# ---------------------------------------------------------------------------------- vacuity self-test
def _bad_lstrip(atype, size=None):
    """A deliberately wrong renderer (character-set strip) -- the oracle must reject it."""
    if atype in PRIMS:
        return PRIMS[atype]
    if atype[0] == "[":
        return _bad_lstrip(atype[1:]) + "[]"
    return atype[1:-1].lstrip("java/lang/").replace("/", ".")


def finalize(ctx, acc):
    fixed = {"Ljava/lang/String;": ("String", "java.lang.String"),
             "Ljava/lang/ref/WeakReference;": ("java.lang.ref.WeakReference",) * 2,
             "Ljava/language/X;": ("java.language.X",) * 2,
             "Ljavax/lang/String;": ("javax.lang.String",) * 2,
             "La/java/lang/String;": ("a.java.lang.String",) * 2,
             "LString;": ("String", "String"),
             "Ljava/lang/Object$1;": ("Object$1", "java.lang.Object$1"),
             "J": ("long", "long")}
    for d, w in fixed.items():
        if ref_element(d) != w:
            acc.harness_error("reference model self-test: ref_element(%r)=%r, expected %r" % (d, ref_element(d), w))
    for sh in ("primitive", "default-package", "java.lang-direct", "java.lang-subpackage", "lookalike-package",
               "java.lang-not-at-start", "java-other-package", "other-package"):
        if not acc.extra.get("shape:" + sh):
            acc.harness_error("descriptor shape %r never enumerated" % sh)
    if len(acc.outcomes) < 1000:
        acc.harness_error("only %d distinct renderings observed - the space degenerated" % len(acc.outcomes))
    # the oracle must see the known kind of defect and must accept a correct renderer
    for d, must_fire in (("Ljava/lang/ref/WeakReference;", True), ("[Ljava/language/String;", True),
                         ("Ljava/lang/String;", False), ("[[I", False)):
        _, bad = judge("util", _bad_lstrip, d, None)
        if bool(bad) != must_fire:
            acc.harness_error("oracle self-test on %r: fired=%r expected %r" % (d, bool(bad), must_fire))
    if judge("util", lambda a, s=None: "int[][]", "[I", None)[1] is None:
        acc.harness_error("oracle self-test: a surplus bracket pair was accepted")
    # the decompiler's source positions use the enumerated function object itself
    try:
        from androguard.decompiler import util, writer, basic_blocks, decompile
        same = writer.get_type is util.get_type and basic_blocks.get_type is util.get_type \
            and decompile.util.get_type is util.get_type
        acc.count("writer_uses_enumerated_function", 1 if same else 0)
        if not same:
            acc.note("writer/basic_blocks/decompile no longer use util.get_type itself: the source positions of "
                     "DvClass.get_source are not covered by this check")
    except Exception as e:       # noqa
        acc.note("could not inspect writer bindings: %s" % e)
    acc.note("size argument: only bracket structure judged (count = dimensions, pair empty or str(size), at most one "
             "filled); HEAD prints the size in the LAST pair, e.g. get_type('[[I', 7) = 'int[][7]', not judged")
    acc.note("DvClass.get_source field/parameter/return positions not rendered (needs a DEX generator); covered by "
             "function identity only")
