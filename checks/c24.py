"""C24  Type descriptors are rendered as the right Java type names  (engine E1: finite-domain product).

Space: 9 primitives; class descriptors = every package path of depth 0..3 (thorough 0..4) over the segment
alphabet SEGS x every simple name of NAMES; every element type wrapped in 0..3 (thorough 0..4) array dimensions
(void is not an array element); `size` argument in {None, 0, 7}; both `androguard.decompiler.util.get_type` and
`androguard.core.dex.get_type`.
Decompiled-source positions (generated DEX, gen/dexgen.py): for the reduced set SRC_TYPES (every primitive, 36 class
descriptors of every shape class, 30 arrays of depth 1-3) classes are generated that use the type as static/instance
field, parameter, return type, local declaration, cast, instanceof, const-class, new-instance, owner of a static
field / static call, new-array, and classes NAMED by each class descriptor with tricky superclass and interfaces; the
type texts are cut out of `DvClass.get_source()` (class header: package + name, extends, implements, constructor name)
and judged by the same reference.  Canonical or fully qualified is accepted at every source position.

Oracle (written here, independent of the code under test): the element type is rendered as the primitive keyword
or as the dotted class name; the canonical form drops `java.lang.` only when the class is a direct member of
java.lang (exactly the two package segments java, lang); one bracket pair per array dimension.
  * util.get_type must give the canonical form.
  * dex.get_type may give the canonical or the fully qualified form (DESIGN section 11).
  * `$` of nested names is left as is.
  * `size` (no caller in the tree passes it): the statement does not speak about it.  Judged only: the number of
    bracket pairs equals the number of dimensions, a pair is empty or holds str(size), at most one pair holds it.
    Whether the size is printed at all and in which pair (HEAD: the last pair, `int[][7]`) is NOT judged.

The result is split into (element text, bracket pairs) and the two parts are judged separately, so a wrong element
name under an array is keyed by the shape of the element descriptor and a wrong bracket structure by the dimension.
"""
import itertools
import re

from mc.core import Acc

PROPERTY = "C24"
LEVEL = "exploration"
RULE = ("full product: (9 primitives + every package path of depth 0..3 (thorough 0..4) over a 10-segment alphabet x 6 "
        "simple names) x array depth 0..3 (thorough 0..4) x size {None,0,7} x {util.get_type, dex.get_type}; "
        "plus 75 descriptors x 15 kinds of position in DvClass.get_source() of generated classes; "
        "non-trivial = class descriptor or array; distinct by (function, descriptor, size) / (position, descriptor), "
        "measured by hash")
ASSUMPTIONS = [
    "the reference naming rules (25 lines in checks/c24.py) are trusted",
    "the size argument is judged only for bracket structure; presence/position of the printed size is not judged",
    "source positions are rendered for the reduced set SRC_TYPES only (75 descriptors covering every shape class); for "
    "the full product it is checked that writer.get_type and basic_blocks.get_type are the very function util.get_type "
    "that is enumerated; gen/dexgen.py (independent DEX writer) is trusted for the generated classes",
]
MANIFEST = {
    "engine": "E1-product",
    "technique": "exhaustive product of descriptor shapes against a reference naming model",
    "text": "Every primitive, every class descriptor built from a 10-segment package alphabet (java, javax, lang, "
            "language, langx, ref, annotation, a, l, ja) to depth 3 with 6 simple names, in 0-3 array dimensions and with "
            "size None/0/7, is rendered by decompiler.util.get_type and dex.get_type and compared with the Java name "
            "computed by an independent reference; complete for the stated alphabet and bound, which contains every "
            "java.lang subpackage / look-alike-package shape the statement singles out.",
    "note": "Trusted: the reference naming function in checks/c24.py. dex.get_type may answer canonical or fully "
            "qualified. The printed array size is judged for bracket structure only. DvClass.get_source positions (field, "
            "parameter, return, local, cast, instanceof, const-class, new, new-array, owners, class header, constructor) "
            "are rendered from generated DEX files for 75 descriptors covering every shape class; gen/dexgen.py trusted.",
}

PRIMS = {"V": "void", "Z": "boolean", "B": "byte", "S": "short", "C": "char",
         "I": "int", "J": "long", "F": "float", "D": "double"}
SEGS = ["java", "javax", "lang", "language", "langx", "ref", "annotation", "a", "l", "ja"]
NAMES = ["String", "Long", "annotation", "a", "L", "Object$1"]
SIZES = [None, 0, 7]
DEEP = ["I", "Ljava/lang/String;", "Ljava/lang/ref/String;", "Ljava/language/a;"]     # elements also tried at 255 dimensions
NSHARDS = 40


def _bounds(ctx):
    return (4, 4) if ctx.thorough else (3, 3)     # (package depth, array depth)


def space(ctx):
    pd, ad = _bounds(ctx)
    return {"primitives": sorted(PRIMS), "package_segments": SEGS, "package_depth": [0, pd], "simple_names": NAMES,
            "array_depth": [0, ad], "array_depth_maximum_255_for": DEEP, "size_argument": [repr(s) for s in SIZES],
            "functions": ["androguard.decompiler.util.get_type", "androguard.core.dex.get_type"],
            "source_positions": {"descriptors": SRC_TYPES, "positions": ["field", "param", "return", "local", "cast",
                                 "instanceof", "const-class", "new-instance", "static-field-owner", "invoke-owner",
                                 "new-array", "class-name", "extends", "implements", "constructor"],
                                 "entry_points": ["DvClass.get_source()", "DvClass.get_source_ext() / DvMethod.get_source_ext() tokens",
                                                  "DvClass.get_ast() (process(doAST=True))"],
                                 "decoy_history": "same class/field/method names with the types rotated, decompiled first",
                                 "interface_order": "both orders (alternating with the class index)"},
            "parameter_lists": {"class_names": {k: [ascii(x) for x in v] for k, v in HOSTILE.items()}, "array_depth": [0, 1],
                                "length": [1, 3], "position_of_the_name": "first / middle / last", "other_members": FILLERS,
                                "read_through": ["util.get_params_type (blank separated descriptor)", "get_source() prototype",
                                                 "get_source_ext() ARG_TYPE", "get_ast() params", "arguments of an invoke"]}}


# ---------------------------------------------------------------------------------- reference model
def ref_element(desc):
    """(canonical, fully qualified) Java name of a non-array descriptor; None if it is not one."""
    if desc in PRIMS:
        return PRIMS[desc], PRIMS[desc]
    if len(desc) >= 3 and desc[0] == "L" and desc[-1] == ";":
        parts = desc[1:-1].split("/")
        if any(p == "" for p in parts):
            return None
        qualified = ".".join(parts)
        if len(parts) == 3 and parts[0] == "java" and parts[1] == "lang":
            return parts[2], qualified
        return qualified, qualified
    return None


def split_desc(desc):
    dims = len(desc) - len(desc.lstrip("["))
    return dims, desc[dims:]


def shape(elem):
    """Input-side class of an element descriptor (used in violation keys)."""
    if elem in PRIMS:
        return "primitive"
    parts = elem[1:-1].split("/")
    pkg = parts[:-1]
    if not pkg:
        return "default-package"
    if pkg == ["java", "lang"]:
        return "java.lang-direct"
    if pkg[:2] == ["java", "lang"]:
        return "java.lang-subpackage"
    if elem.startswith("Ljava/lang"):
        return "lookalike-package"            # java/language/.., java/langx/..  (text prefix only)
    for i in range(1, len(pkg) - 1):
        if pkg[i:i + 2] == ["java", "lang"]:
            return "java.lang-not-at-start"
    if pkg[0] in ("java", "javax", "ja"):
        return "java-other-package"
    return "other-package"


_RES = re.compile(r"^(.*?)((?:\[[^\[\]]*\])*)$", re.S)
_PAIR = re.compile(r"\[([^\[\]]*)\]")


def judge(fname, fn, desc, size):
    """Returns (got, None) or (got, (key, msg)).  Shared by run_shard and replay."""
    dims, elem = split_desc(desc)
    want = ref_element(elem)
    assert want is not None, desc
    canon, qual = want
    try:
        got = fn(desc) if size is None else fn(desc, size)
    except Exception as e:      # noqa
        return "EXC", ("%s:%s:raises" % (fname, shape(elem)),
                       "%s.get_type(%r, %r) raised %s: %s" % (fname, desc, size, type(e).__name__, e))
    call = "%s.get_type(%r%s)" % (fname, desc, "" if size is None else ", %r" % (size,))
    if not isinstance(got, str):
        return repr(got), ("%s:%s:not-a-string" % (fname, shape(elem)), "%s returned %r" % (call, got))
    bad = judge_text(got, desc, size, (canon,) if fname == "util" else (canon, qual))
    if bad is None:
        return got, None
    if bad[0] == "elem":
        return got, ("%s:%s" % (fname, shape(elem)), "%s = %r: %s" % (call, got, bad[1]))
    return got, ("%s:array:dim%d%s" % (fname, dims, "" if size is None else ":sized"), "%s = %r: %s" % (call, got, bad[1]))


def judge_text(got, desc, size, allowed):
    """Is the text `got` a rendering of descriptor `desc`?  None, or ("elem" | "array", what is wrong)."""
    dims, _ = split_desc(desc)
    m = _RES.match(got)
    g_elem, g_br = m.group(1), _PAIR.findall(m.group(2))
    if g_elem not in allowed:
        return "elem", "element type rendered %r, expected %s" % (g_elem, " or ".join(repr(a) for a in allowed))
    ok_br = len(g_br) == dims
    if ok_br:
        if size is None:
            ok_br = all(b == "" for b in g_br)
        else:
            ok_br = all(b in ("", str(size)) for b in g_br) and sum(1 for b in g_br if b != "") <= 1
    if not ok_br:
        return "array", "%d bracket pair(s) %r for %d dimension(s)" % (len(g_br), g_br, dims)
    return None


# ---------------------------------------------------------------------------------- decompiled-source positions
# Reduced descriptor set: every primitive, class descriptors of every shape class of the alphabet, arrays of depth 1-3.
SRC_CLASSES = [
    "LString;", "La;", "LObject$1;", "LL;",                                                       # default package
    "Ljava/lang/String;", "Ljava/lang/Long;", "Ljava/lang/annotation;", "Ljava/lang/a;", "Ljava/lang/L;",
    "Ljava/lang/Object$1;",                                                                       # java.lang direct
    "Ljava/lang/ref/String;", "Ljava/lang/annotation/Long;", "Ljava/lang/a/a;", "Ljava/lang/java/lang/String;",
    "Ljava/lang/l/Object$1;", "Ljava/lang/lang/L;", "Ljava/lang/ja/annotation;",                  # java.lang subpackage
    "Ljava/language/String;", "Ljava/langx/L;", "Ljava/language/a/annotation;", "Ljava/langx/lang/Long;",   # look-alike
    "La/java/lang/String;", "Ljavax/java/lang/Long;", "Ll/java/lang/a;",                          # java.lang not at start
    "Ljava/ref/String;", "Ljavax/lang/String;", "Lja/lang/Long;", "Ljava/a/L;", "Ljava/String;", "Ljavax/annotation/a;",
    "Llang/String;", "La/l/Object$1;", "Lref/annotation/a;", "Lannotation/L;", "Ll/a;", "Llang/java/Long;",
]
SRC_ARRAYS = ["[I", "[[J", "[[[Z", "[B", "[S", "[[C", "[F", "[[[D",
              "[LString;", "[[La;", "[[[LObject$1;",
              "[Ljava/lang/String;", "[[Ljava/lang/Long;", "[[[Ljava/lang/a;", "[Ljava/lang/Object$1;",
              "[Ljava/lang/ref/String;", "[[Ljava/lang/annotation/Long;", "[[[Ljava/lang/a/a;",
              "[Ljava/language/String;", "[[Ljava/langx/L;", "[[[Ljava/language/a/annotation;",
              "[La/java/lang/String;", "[[Ljavax/java/lang/Long;", "[[[Ll/java/lang/a;",
              "[Ljavax/lang/String;", "[[Ljava/ref/String;", "[[[Lja/lang/Long;",
              "[Llang/String;", "[[La/l/Object$1;", "[[[Lref/annotation/a;",
              "[" * 255 + "I", "[" * 255 + "Ljava/lang/ref/String;"]          # the maximum number of dimensions
SRC_TYPES = list("ZBSCIJFDV") + SRC_CLASSES + SRC_ARRAYS
N_SRC = 24
OBJ = "Ljava/lang/Object;"
BODY_POS = {           # method prefix -> (position name, regex on the method's source; group 1 = type text)
    "loc": ("local", r"^\s+(.*) v0(?:_\d+)? = K\.mk\(\);$"),
    "cst": ("cast", r"return \(\((.*)\) p0\);"),
    "iof": ("instanceof", r"return \(p1 instanceof (.*)\);"),
    "cls": ("const-class", r"return (.*);"),
    "new": ("new-instance", r"return new (.*)\(\);"),
    "sta": ("static-field-owner", r"return (.*)\.fld;"),
    "inv": ("invoke-owner", r"^\s+(.*)\.sm\(\);$"),
}


class SourceLayout(Exception):
    """The decompiled text does not have the layout the extractor expects (harness problem, not a violation)."""


def _super_of(t, decoy=False):
    """superclass and the two interfaces of the generated class named t (interface order alternates with the index, so
    both orders of every pair shape occur; the decoy uses other neighbours)."""
    i = SRC_CLASSES.index(t)
    n = len(SRC_CLASSES)
    a, b, c = (3, 5, 9) if decoy else (7, 13, 22)
    itf = (SRC_CLASSES[(i + b) % n], SRC_CLASSES[(i + c) % n])
    return SRC_CLASSES[(i + a) % n], (itf if i % 2 == 0 else itf[::-1])


def build_source_dex(types, decoy=False):
    from gen import dalvik as D, dexgen as G
    st = G.ACC_PUBLIC | G.ACC_STATIC
    ms, sf, inf, classes = [], [], [], []
    for i, t in enumerate(types):
        wide, ref = t in ("J", "D"), t[0] in "L["
        nreg = 2 if wide else 1
        if t != "V":
            sf.append(G.Field("sf%d" % i, t, st))
            inf.append(G.Field("if%d" % i, t, G.ACC_PRIVATE))
            ms.append(G.Method("par%d" % i, "V", (t, "I", t), st, G.Code(2 * nreg + 1, 2 * nreg + 1, 0, D.enc("return-void"))))
        mv = "move-result-wide" if wide else ("move-result-object" if ref else "move-result")
        rt = "return-wide" if wide else ("return-object" if ref else "return")

        def ret(ix, t=t, wide=wide, ref=ref, rt=rt):
            if t == "V":
                return D.enc("return-void")
            return (D.enc("const-wide/16", 0, 0) if wide else D.enc("const/4", 0, 0)) + D.enc(rt, 0)
        ms.append(G.Method("ret%d" % i, t, (), st, G.Code(2, 0, 0, ret)))
        if t != "V":
            def loc(ix, t=t, wide=wide, mv=mv, rt=rt):
                b = D.enc("invoke-static", ix.method("LK;", "mk", t, ()), []) + D.enc(mv, 0)
                b += D.enc("invoke-static", ix.method("LK;", "use", "V", (t,)), [0, 1] if wide else [0])
                return b + D.enc(rt, 0)
            ms.append(G.Method("loc%d" % i, t, (), st, G.Code(2, 0, 2, loc)))
        if ref:
            ms.append(G.Method("cst%d" % i, OBJ, (OBJ,), st, G.Code(1, 1, 0, lambda ix, t=t: D.enc("check-cast", 0, ix.type(t)) + D.enc("return-object", 0))))
            ms.append(G.Method("iof%d" % i, "Z", (OBJ,), st, G.Code(2, 1, 0, lambda ix, t=t: D.enc("instance-of", 0, 1, ix.type(t)) + D.enc("return", 0))))
            ms.append(G.Method("cls%d" % i, "Ljava/lang/Class;", (), st, G.Code(1, 0, 0, lambda ix, t=t: D.enc("const-class", 0, ix.type(t)) + D.enc("return-object", 0))))
        if t[0] == "L":
            ms.append(G.Method("new%d" % i, OBJ, (), st, G.Code(1, 0, 1, lambda ix, t=t: D.enc("new-instance", 0, ix.type(t)) + D.enc("invoke-direct", ix.method(t, "<init>", "V", ()), [0]) + D.enc("return-object", 0))))
            ms.append(G.Method("sta%d" % i, "I", (), st, G.Code(1, 0, 0, lambda ix, t=t: D.enc("sget", 0, ix.field(t, "fld", "I")) + D.enc("return", 0))))
            ms.append(G.Method("inv%d" % i, "V", (), st, G.Code(1, 0, 0, lambda ix, t=t: D.enc("invoke-static", ix.method(t, "sm", "V", ()), []) + D.enc("return-void"))))
            sup, itf = _super_of(t, decoy)
            ctor = G.Method("<init>", "V", (), G.ACC_PUBLIC | G.ACC_CONSTRUCTOR, G.Code(1, 1, 1, lambda ix, sup=sup: D.enc("invoke-direct", ix.method(sup, "<init>", "V", ()), [0]) + D.enc("return-void")))
            classes.append(G.Class(t, superclass=sup, interfaces=itf, dmethods=[ctor]))
        if t[0] == "[":
            ms.append(G.Method("arr%d" % i, OBJ, (), st, G.Code(1, 0, 0, lambda ix, t=t: D.enc("const/4", 0, 3) + D.enc("new-array", 0, 0, ix.type(t)) + D.enc("return-object", 0))))
    holder = G.Class("Lp/H;", sfields=sf, ifields=inf, dmethods=ms)
    return G.build(G.Dex([holder] + classes))


def _decoy(types):
    """Decoy history: the SAME class, field and method names with OTHER types (rotated by one), other superclasses and
    interfaces, pushed through the same entry points first; results ignored.  A cache keyed by a name would show."""
    from androguard.core import dex
    from androguard.core.analysis.analysis import Analysis
    from androguard.decompiler.decompile import DvClass
    rot = [t for t in types if t != "V"]
    cls_t = [t for t in rot if t[0] == "L"]
    other = [t for t in rot if t[0] != "L"]
    # class-typed slots keep a class type (the named classes must exist under the same names), rotated among themselves
    it_c, it_o = iter(cls_t[1:] + cls_t[:1]), iter(other[1:] + other[:1])
    dtypes = [("V" if t == "V" else next(it_c) if t[0] == "L" else next(it_o)) for t in types]
    vm = dex.DEX(build_source_dex(dtypes, decoy=True))
    dx = Analysis(vm)
    for c in vm.get_classes():
        for ast in (False, True):
            dc = DvClass(c, dx)
            dc.process(doAST=ast)
            if ast:
                dc.get_ast()
            else:
                dc.get_source()
                dc.get_source_ext()


def _typename_ok(node, desc, dims_allowed=None):
    """AST form ['TypeName', (name, dims)]: name in binary ('a/b/C', '.int') or Java form, dims exact."""
    dims, elem = split_desc(desc)
    canon, qual = ref_element(elem)
    try:
        name, d = node[1]
    except Exception:       # noqa
        return False
    names = {canon, qual, "." + canon} if elem in PRIMS else {canon, qual, elem[1:-1]}
    return name in names and d in (dims_allowed or (dims,))


def _walk_typenames(node, out):
    if isinstance(node, (list, tuple)):
        if len(node) == 2 and node[0] == "TypeName" and isinstance(node[1], (list, tuple)):
            out.append(node)
            return
        for x in node:
            _walk_typenames(x, out)


def source_positions(types):
    """Decompile the generated classes and cut the type texts out: -> list of (position, descriptor, text, size, mode)
    mode: "type" (canonical or qualified accepted), "qualified-name" (package + class name), "simple-name",
    "ast" (text is True/False: the AST TypeName node denotes the descriptor).
    Three entry points: get_source() text (positions 'x'), the get_source_ext() token stream ('ext:x') and the
    get_ast() tree ('ast:x')."""
    from androguard.core import dex
    from androguard.core.analysis.analysis import Analysis
    from androguard.decompiler.decompile import DvClass, DvMethod
    _decoy(types)
    vm = dex.DEX(build_source_dex(types))
    dx = Analysis(vm)
    out = []

    def tok(toks, tag, what, nth=0, last=False):
        hits = [t[1] for t in toks if t[0] == tag]
        if len(hits) <= nth:
            raise SourceLayout("%s: token %s #%d not in the ext stream %r" % (what, tag, nth, [t[:2] for t in toks][:40]))
        return hits[-1] if last else hits[nth]

    def strip(text, pre, suf, what):
        if not (text.startswith(pre) and text.endswith(suf)):
            raise SourceLayout("%s: token %r does not look like %r...%r" % (what, text, pre, suf))
        return text[len(pre):len(text) - len(suf)]

    def ext_and_ast(c):
        dc = DvClass(c, dx)
        dc.process()
        ext = dc.get_source_ext()
        mext = {m.name: m.get_source_ext() for m in dc.methods if isinstance(m, DvMethod)}
        da = DvClass(c, dx)
        da.process(doAST=True)
        return ext, mext, da.get_ast()

    def need(rx, text, what, flags=re.M):
        m = re.search(rx, text, flags)
        if not m:
            raise SourceLayout("%s: /%s/ not found in:\n%s" % (what, rx, text[:600]))
        return m
    for c in vm.get_classes():
        dc = DvClass(c, dx)
        dc.process()
        src = dc.get_source()
        msrc = {m.name: m.get_source() for m in dc.methods if isinstance(m, DvMethod)}
        ext, mext, ast = ext_and_ast(c)
        amethods = {m["triple"][1]: m for m in ast["methods"]}
        if c.get_name() == "Lp/H;":
            ftok = {}
            for kind, toks in ext:
                if kind == "FIELD":
                    ftok[tok(toks, "NAME_FIELD", "field entry")] = tok(toks, "FIELD_TYPE", "field entry")
            afields = {f["triple"][1]: f["type"] for f in ast["fields"]}
            for i, t in enumerate(types):
                if t != "V":
                    for nm in ("sf%d" % i, "if%d" % i):
                        if nm not in ftok or nm not in afields:
                            raise SourceLayout("field %s missing from the ext stream / AST" % nm)
                        out.append(("ext:field", t, ftok[nm], None, "type"))
                        out.append(("ast:field", t, _typename_ok(afields[nm], t), None, "ast"))
                    pe = mext["par%d" % i]
                    out.append(("ext:param", t, tok(pe, "ARG_TYPE", "par", 0), None, "type"))
                    out.append(("ext:param", t, tok(pe, "ARG_TYPE", "par", 2), None, "type"))
                    pa = amethods["par%d" % i]["params"]
                    out.append(("ast:param", t, _typename_ok(pa[0][0], t) and _typename_ok(pa[2][0], t), None, "ast"))
                out.append(("ext:return", t, tok(mext["ret%d" % i], "PROTOTYPE_TYPE", "ret"), None, "type"))
                out.append(("ast:return", t, _typename_ok(amethods["ret%d" % i]["ret"], t), None, "ast"))
                for pre, pos, get in (
                        ("loc", "local", lambda e: tok(e, "VARIABLE_TYPE", "loc")),
                        ("cst", "cast", lambda e: strip(tok(e, "CHECKCAST", "cst"), "((", ") ", "cast")),
                        ("iof", "instanceof", lambda e: tok(e, "NAME_BASE_CLASS", "iof", last=True)),
                        ("cls", "const-class", lambda e: tok(e, "NAME_BASE_CLASS", "cls")),
                        ("new", "new-instance", lambda e: tok(e, "NAME_CLASS_NEW", "new")),
                        ("inv", "invoke-owner", lambda e: tok(e, "NAME_BASE_CLASS", "inv")),
                        ("sta", "static-field-owner", lambda e: strip(tok(e, "GET_STATIC", "sta"), "", ".fld", "sget"))):
                    e = mext.get("%s%d" % (pre, i))
                    if e is not None:
                        out.append(("ext:" + pos, t, get(e), None, "type"))
                        tn = []
                        _walk_typenames(amethods["%s%d" % (pre, i)]["body"], tn)
                        tn = [x for x in tn if x[1][0] != "K"]
                        out.append(("ast:" + pos, t, bool(tn) and all(_typename_ok(x, t) for x in tn), None, "ast"))
                e = mext.get("arr%d" % i)
                if e is not None:
                    out.append(("ext:local", t, tok(e, "VARIABLE_TYPE", "arr"), None, "type"))
                    na = strip(tok(e, "NEW_ARRAY", "arr"), "new ", "", "new-array") + tok(e, "CONSTANT_INTEGER", "arr") + tok(e, "NEW_ARRAY_END", "arr")
                    out.append(("ext:new-array", t, na, 3, "type"))
                    tn = []
                    _walk_typenames(amethods["arr%d" % i]["body"], tn)
                    d = split_desc(t)[0]
                    out.append(("ast:new-array", t, any(x[1][1] == d for x in tn) and
                                all(_typename_ok(x, t, (d - 1, d)) for x in tn), None, "ast"))
            for i, t in enumerate(types):
                if t != "V":
                    out.append(("field", t, need(r"^    public static (.*) sf%d;$" % i, src, "static field %d" % i).group(1), None, "type"))
                    out.append(("field", t, need(r"^    private (.*) if%d;$" % i, src, "instance field %d" % i).group(1), None, "type"))
                    m = need(r"^    public static void par%d\((.*) p0, int p\d+, (.*) p\d+\)$" % i, src, "parameters %d" % i)
                    out.append(("param", t, m.group(1), None, "type"))
                    out.append(("param", t, m.group(2), None, "type"))
                out.append(("return", t, need(r"^    public static (.*) ret%d\(\)$" % i, src, "return type %d" % i).group(1), None, "type"))
                for pre, (pos, rx) in BODY_POS.items():
                    text = msrc.get("%s%d" % (pre, i))
                    if text is not None:
                        out.append((pos, t, need(rx, text, "%s %d" % (pos, i)).group(1), None, "type"))
                text = msrc.get("arr%d" % i)
                if text is not None:
                    m = need(r"^\s+(.*) v0(?:_\d+)? = new (.*);$", text, "new-array %d" % i)
                    out.append(("local", t, m.group(1), None, "type"))
                    out.append(("new-array", t, m.group(2), 3, "type"))
        else:
            t = c.get_name()
            sup, itf = _super_of(t)
            pk = re.search(r"^package (.*);$", src, re.M)
            m = need(r"^public class (.*?) extends (.*?) implements (.*) \{$", src, "class header of %s" % t)
            out.append(("class-name", t, (pk.group(1) + "." if pk else "") + m.group(1), None, "qualified-name"))
            out.append(("extends", sup, m.group(2), None, "type"))
            got_itf = m.group(3).split(", ")
            if len(got_itf) != len(itf):
                raise SourceLayout("class header of %s lists %d interfaces: %r" % (t, len(got_itf), m.group(3)))
            for d, g in zip(itf, got_itf):
                out.append(("implements", d, g, None, "type"))
            out.append(("constructor", t, need(r"^    public (.*)\(\)$", src, "constructor of %s" % t).group(1), None, "simple-name"))
            proto = [toks for kind, toks in ext if kind == "PROTOTYPE"]
            if len(proto) != 1:
                raise SourceLayout("ext stream of %s has %d PROTOTYPE entries" % (t, len(proto)))
            pkg = [tok(toks, "NAME_PACKAGE", "package") for kind, toks in ext if kind == "PACKAGE"]
            out.append(("ext:class-name", t, (pkg[0] + "." if pkg else "") + tok(proto[0], "NAME_PROTOTYPE", "header"), None, "qualified-name"))
            out.append(("ext:extends", sup, tok(proto[0], "NAME_SUPERCLASS", "header"), None, "type"))
            eitf = [x[1] for x in proto[0] if x[0] == "NAME_INTERFACE"]
            if len(eitf) != len(itf):
                raise SourceLayout("ext header of %s lists %d interfaces" % (t, len(eitf)))
            for d, g in zip(itf, eitf):
                out.append(("ext:implements", d, g, None, "type"))
            out.append(("ext:constructor", t, tok(mext["<init>"], "NAME_METHOD_PROTOTYPE", "ctor"), None, "simple-name"))
            out.append(("ast:class-name", t, _typename_ok(ast["name"], t) and ast["rawname"] == t[1:-1], None, "ast"))
            out.append(("ast:extends", sup, _typename_ok(ast["super"], sup), None, "ast"))
            out.append(("ast:implements", itf[0], len(ast["interfaces"]) == 2 and _typename_ok(ast["interfaces"][0], itf[0]), None, "ast"))
            out.append(("ast:implements", itf[1], len(ast["interfaces"]) == 2 and _typename_ok(ast["interfaces"][1], itf[1]), None, "ast"))
    return out


def judge_source(types):
    """-> (positions, list of (key, position, descriptor, message), number subsumed).  Shared by run_shard and replay.
    A member position that prints exactly what util.get_type() returns for a descriptor on which util.get_type is
    already reported is not reported again (one defect of that function = its util:* keys only)."""
    out = []
    subsumed = 0
    util_fn = dict(_fns())["util"]
    pos = source_positions(types)
    for where, desc, got, size, mode in pos:
        dims, elem = split_desc(desc)
        canon, qual = ref_element(elem)
        if mode == "ast":
            bad = None if got else ("elem", "the AST does not carry this type (TypeName (name, dimensions) expected to "
                                            "denote %r with %d dimension(s))" % (qual, dims))
        elif mode == "type":
            bad = judge_text(got, desc, size, (canon, qual))
        elif mode == "qualified-name":
            bad = None if got == qual else ("elem", "package + class name give %r, expected %r" % (got, qual))
        else:
            want = qual.rsplit(".", 1)[-1]
            bad = None if got == want else ("elem", "constructor named %r, expected %r" % (got, want))
        if bad and mode == "type" and size is None:
            ugot, ubad = judge("util", util_fn, desc, None)
            if ubad and ugot == got:
                subsumed += 1
                continue
        if bad:
            key = "source:%s:%s" % (where, shape(elem)) if bad[0] == "elem" else "source:%s:array:dim%d" % (where, dims)
            out.append((key, where, desc, "decompiled source, %s position, descriptor %r printed as %r: %s" % (where, desc, got, bad[1])))
    return pos, out, subsumed


# ---------------------------------------------------------------------------------- parameter lists
# Class names with the DEX SimpleNameChar characters that are not "word" characters ('-', currency and other symbols,
# a supplementary symbol), placed first / middle / last in parameter lists of 1..3 parameters whose other members are
# primitives whose letter also occurs inside the hostile name, or a plain class.  Read through util.get_params_type
# (blank separated descriptor, the form androguard builds), the prototype in get_source(), the ARG_TYPE tokens of
# get_source_ext(), the params of get_ast(), and the argument list of an invoke that passes the parameters on.
HOSTILE = {"hyphen": ["Lcom/acme/Data-Set;", "Lb-D;", "Lpackage-info;"],
           "symbol-bmp": ["Lcom/acme/Prix\u20ac;", "La/\u00a2J;", "L\u20acI/Z\u00a2S;"],
           "symbol-nonbmp": ["Lcom/acme/S\U0001f600Z;"],
           "word": ["Lcom/acme/Plain;", "Lcom/acme/D_I$1;", "Lcom/acme/\u00c9t\u00e9J;"]}
FILLERS = ["I", "J", "D", "Ljava/lang/String;"]
N_PAR = 16


def hostile_class(t):
    e = split_desc(t)[1]
    for k, v in HOSTILE.items():
        if e in v:
            return k
    return "word"


def param_lists():
    out = []
    for k in ("hyphen", "symbol-bmp", "symbol-nonbmp", "word"):
        for e in HOSTILE[k]:
            for dims in (0, 1):
                h = "[" * dims + e
                for n in (1, 2, 3):
                    for pos in range(n):
                        for fill in itertools.product(FILLERS, repeat=n - 1):
                            f = list(fill)
                            out.append((h, tuple(f[:pos] + [h] + f[pos:])))
    return out


def _nregs(t):
    return 2 if t in ("J", "D") else 1


def judge_params(cases):
    """cases: list of (hostile type, parameter tuple).  -> (evaluations, [(key, case, message)]).  Shared with replay."""
    from gen import dalvik as D, dexgen as G
    from androguard.core import dex
    from androguard.core.analysis.analysis import Analysis
    from androguard.decompiler.decompile import DvClass, DvMethod
    from androguard.decompiler import util
    out = []
    n_eval = 0

    tokeniser_failed = set()

    def bad(api, case, msg):
        # one defect of the tokeniser = its params:get_params_type:* keys only; what follows from it downstream
        # (prototype, tokens, AST, invoke arguments of the same list) is not keyed again
        if api == "get_params_type":
            tokeniser_failed.add(case)
        elif case in tokeniser_failed:
            return
        out.append(("params:%s:%s" % (api, hostile_class(case[0])), case, "parameter list %r, %s" % (list(case[1]), msg)))

    def want_names(params):
        return [tuple(ref_element(split_desc(t)[1])) for t in params]

    def types_ok(texts, params):
        if len(texts) != len(params):
            return "%d parameter(s) printed for %d: %r" % (len(texts), len(params), texts)
        for g, t in zip(texts, params):
            b = judge_text(g, t, None, ref_element(split_desc(t)[1]))
            if b:
                return "parameter %r printed as %r: %s" % (t, g, b[1])
        return None
    # --- the tokeniser itself
    for case in cases:
        n_eval += 1
        desc = "(" + " ".join(case[1]) + ")V"
        try:
            got = util.get_params_type(desc)
        except Exception as e:      # noqa
            got = "raised %s: %s" % (type(e).__name__, e)
        if got != list(case[1]):
            bad("get_params_type", case, "util.get_params_type(%s) = %s" % (ascii(desc), ascii(got)))
    # --- through a generated DEX
    st = G.ACC_PUBLIC | G.ACC_STATIC
    ms = []
    for i, (h, params) in enumerate(cases):
        regs = sum(_nregs(t) for t in params)

        def body(ix, params=params, regs=regs):
            return D.enc("invoke-static/range", ix.method("LK;", "m", "V", params), 0, regs) + D.enc("return-void")
        ms.append(G.Method("q%d" % i, "V", params, st, G.Code(regs, regs, regs, body)))
    try:
        vm = dex.DEX(G.build(G.Dex([G.Class("Lp/Q;", dmethods=ms)])))
        dx = Analysis(vm)
        dc = DvClass(vm.get_classes()[0], dx)
        dc.process()
        src = dc.get_source()
        mext = {m.name: m.get_source_ext() for m in dc.methods if isinstance(m, DvMethod)}
        da = DvClass(vm.get_classes()[0], dx)
        da.process(doAST=True)
        am = {m["triple"][1]: m for m in da.get_ast()["methods"]}
    except Exception as e:      # noqa
        out.append(("params:raises", cases[0], "decompiling a class whose methods take %r ... raised %s: %s"
                    % (list(cases[0][1]), type(e).__name__, e)))
        return n_eval, out
    for i, case in enumerate(cases):
        params = case[1]
        n_eval += 4
        m = re.search(r"^    public static void q%d\((.*)\)$" % i, src, re.M)
        if not m:       # the method was dropped from the source (its decompilation failed): nothing is rendered
            bad("prototype", case, "get_source() has no method q%d at all (the decompiler gave the method up)" % i)
            continue
        decl = m.group(1).split(", ") if m.group(1) else []
        texts = [d.rsplit(" ", 1)[0] for d in decl]
        names = [d.rsplit(" ", 1)[-1] for d in decl]
        b = types_ok(texts, params)
        if b:
            bad("prototype", case, "get_source() prototype '(%s)': %s" % (m.group(1), b))
        et = [t[1] for t in mext.get("q%d" % i, ()) if t[0] == "ARG_TYPE"]
        b = types_ok(et, params)
        if b:
            bad("ext-arg-type", case, "get_source_ext() ARG_TYPE tokens: %s" % b)
        ap = am.get("q%d" % i, {}).get("params", [])
        if len(ap) != len(params) or not all(_typename_ok(x[0], t) for x, t in zip(ap, params)):
            bad("ast-params", case, "get_ast() params are %r" % ([x[0] for x in ap],))
        # the invoke passes every parameter on, in order: K.m(p0, p2, ...) with the names of the prototype
        regs, exp = 0, []
        for t in params:
            exp.append("p%d" % regs)
            regs += _nregs(t)
        body = src[m.end():]
        c = re.search(r"^\s+K\.m\((.*)\);$", body[:body.find("\n    }")], re.M)
        args = c.group(1).split(", ") if c and c.group(1) else []
        if not c or args != exp or (not b and names != exp):
            bad("invoke-arguments", case, "the call that passes the parameters on is %r with prototype names %r, expected "
                "arguments %r" % (c.group(0).strip() if c else None, names, exp))
    return n_eval, out


def run_params_shard(ctx, shard):
    acc = Acc()
    cases = param_lists()[shard[1]::N_PAR]
    try:
        n, bad = judge_params(cases)
    except SourceLayout as e:
        acc.harness_error("parameter lists: %s" % e)
        return acc
    acc.n += n
    acc.nt_disjoint += n
    acc.count("param_lists", len(cases))
    for h, params in cases:
        acc.count("param_lists:" + hostile_class(h))
        acc.outcomes.add(hash(params))
    for key, case, msg in bad:
        acc.violation(key, {"fn": "params", "hostile": case[0], "params": list(case[1])}, msg)
    if shard[1] == 3:
        acc.sample({"parameter list": list(cases[40][1]), "family": "params"})
    return acc


# ---------------------------------------------------------------------------------- enumeration
def elements(ctx):
    """Simplest first: primitives, then classes by package depth, then by length of the descriptor."""
    pd, _ = _bounds(ctx)
    out = list("ZBSCIJFDV")
    for d in range(pd + 1):
        level = ["L" + "/".join(pkg + (n,)) + ";" for pkg in itertools.product(SEGS, repeat=d) for n in NAMES]
        out += sorted(level, key=lambda x: (len(x), x))
    return out


def shards(ctx):
    return [("elems", i) for i in range(NSHARDS)] + [("src", i) for i in range(N_SRC)] + [("params", i) for i in range(N_PAR)]


def _fns():
    from androguard.decompiler import util
    from androguard.core import dex
    return (("util", util.get_type), ("dex", dex.get_type))


def run_source_shard(ctx, shard):
    acc = Acc()
    types = SRC_TYPES[shard[1]::N_SRC]
    try:
        pos, bad, subsumed = judge_source(types)
        acc.count("source_subsumed_by_util", subsumed)
    except SourceLayout as e:
        acc.harness_error("source positions: %s" % e)
        return acc
    except Exception as e:          # noqa
        acc.violation("source:raises", {"fn": "source", "types": types, "pos": None, "desc": None},
                      "decompiling classes using %r raised %s: %s" % (types, type(e).__name__, e))
        return acc
    for where, desc, got, size, mode in pos:
        acc.case(nontrivial=("source", where, desc, got) if desc not in PRIMS else None, outcome=(where, got))
        acc.count("source_positions")
        acc.count("source_position:" + where)
        acc.count("source_shape:" + shape(split_desc(desc)[1]))
    for key, where, desc, msg in bad:
        acc.violation(key, {"fn": "source", "types": types, "pos": where, "desc": desc}, msg)
    if shard[1] == 10:
        acc.sample({"source positions": [[w, d, g] for w, d, g, _, _ in pos if d == types[1]][:14]})
    return acc


def run_shard(ctx, shard):
    if shard[0] == "src":
        return run_source_shard(ctx, shard)
    if shard[0] == "params":
        return run_params_shard(ctx, shard)
    acc = Acc()
    fns = _fns()
    _, ad = _bounds(ctx)
    allel = elements(ctx)
    per = -(-len(allel) // NSHARDS)            # contiguous blocks: shard 0 holds the simplest descriptors
    for k in range(shard[1] * per, min(len(allel), (shard[1] + 1) * per)):
        elem = allel[k]
        sh = shape(elem)
        for dims in range(ad + 1):
            if dims and elem == "V":
                continue
            desc = "[" * dims + elem
            for size in SIZES:
                for fname, fn in fns:
                    got, bad = judge(fname, fn, desc, size)
                    nt = (fname, desc, size) if (dims or elem not in PRIMS) else None
                    acc.case(nontrivial=nt, outcome=got)
                    acc.count("shape:" + sh)
                    if bad:
                        acc.violation(bad[0], {"fn": fname, "desc": desc, "size": size}, bad[1])
        if shard[1] == 0 and k < 4:                      # field maximum: 255 dimensions
            desc = "[" * 255 + DEEP[k]
            for size in SIZES:
                for fname, fn in fns:
                    got, bad = judge(fname, fn, desc, size)
                    acc.case(nontrivial=(fname, desc, size), outcome=got)
                    acc.count("array_depth_255")
                    if bad:
                        acc.violation(bad[0], {"fn": fname, "desc": desc, "size": size}, bad[1])
        if k % per == 3:
            acc.sample({"desc": "[[" + elem, "size": 7, "util": fns[0][1]("[[" + elem, 7), "dex": fns[1][1]("[[" + elem, 7)})
    return acc


def replay(ctx, w):
    if w["fn"] == "params":
        try:
            _, bad = judge_params([(w["hostile"], tuple(w["params"]))])
        except SourceLayout as e:
            return "HARNESS: %s" % e
        return "; ".join(m for _, _, m in bad) if bad else None
    if w["fn"] == "source":
        try:
            _, bad, _ = judge_source(w["types"])
        except SourceLayout as e:
            return "HARNESS: %s" % e
        except Exception as e:      # noqa
            return "decompiling raised %s: %s" % (type(e).__name__, e)
        hit = [m for _, where, desc, m in bad if (where, desc) == (w["pos"], w["desc"])]
        return "; ".join(hit) if hit else None
    fns = dict(_fns())
    _, bad = judge(w["fn"], fns[w["fn"]], w["desc"], w["size"])
    return bad[1] if bad else None


# ---------------------------------------------------------------------------------- vacuity self-test
def _bad_lstrip(atype, size=None):
    """A deliberately wrong renderer (character-set strip) -- the oracle must reject it."""
    if atype in PRIMS:
        return PRIMS[atype]
    if atype[0] == "[":
        return _bad_lstrip(atype[1:]) + "[]"
    return atype[1:-1].lstrip("java/lang/").replace("/", ".")


def finalize(ctx, acc):
    fixed = {"Ljava/lang/String;": ("String", "java.lang.String"),
             "Ljava/lang/ref/WeakReference;": ("java.lang.ref.WeakReference",) * 2,
             "Ljava/language/X;": ("java.language.X",) * 2,
             "Ljavax/lang/String;": ("javax.lang.String",) * 2,
             "La/java/lang/String;": ("a.java.lang.String",) * 2,
             "LString;": ("String", "String"),
             "Ljava/lang/Object$1;": ("Object$1", "java.lang.Object$1"),
             "J": ("long", "long")}
    for d, w in fixed.items():
        if ref_element(d) != w:
            acc.harness_error("reference model self-test: ref_element(%r)=%r, expected %r" % (d, ref_element(d), w))
    for sh in ("primitive", "default-package", "java.lang-direct", "java.lang-subpackage", "lookalike-package",
               "java.lang-not-at-start", "java-other-package", "other-package"):
        if not acc.extra.get("shape:" + sh):
            acc.harness_error("descriptor shape %r never enumerated" % sh)
    if len(acc.outcomes) < 1000:
        acc.harness_error("only %d distinct renderings observed - the space degenerated" % len(acc.outcomes))
    # the oracle must see the known kind of defect and must accept a correct renderer
    for d, must_fire in (("Ljava/lang/ref/WeakReference;", True), ("[Ljava/language/String;", True),
                         ("Ljava/lang/String;", False), ("[[I", False)):
        _, bad = judge("util", _bad_lstrip, d, None)
        if bool(bad) != must_fire:
            acc.harness_error("oracle self-test on %r: fired=%r expected %r" % (d, bool(bad), must_fire))
    if judge("util", lambda a, s=None: "int[][]", "[I", None)[1] is None:
        acc.harness_error("oracle self-test: a surplus bracket pair was accepted")
    # the decompiler's source positions use the enumerated function object itself
    try:
        from androguard.decompiler import util, writer, basic_blocks, decompile
        same = writer.get_type is util.get_type and basic_blocks.get_type is util.get_type \
            and decompile.util.get_type is util.get_type
        acc.count("writer_uses_enumerated_function", 1 if same else 0)
        if not same:
            acc.note("writer/basic_blocks/decompile no longer use util.get_type itself: the source positions of "
                     "DvClass.get_source are not covered by this check")
    except Exception as e:       # noqa
        acc.note("could not inspect writer bindings: %s" % e)
    acc.note("size argument: only bracket structure judged (count = dimensions, pair empty or str(size), at most one "
             "filled); HEAD prints the size in the LAST pair, e.g. get_type('[[I', 7) = 'int[][7]', not judged")
    for k in HOSTILE:
        if not acc.extra.get("param_lists:" + k):
            acc.harness_error("no parameter list with a %s class name was enumerated" % k)
    for where in ("ext:field", "ext:param", "ext:return", "ext:local", "ext:cast", "ext:new-array", "ext:class-name",
                  "ext:extends", "ext:implements", "ext:constructor", "ast:field", "ast:param", "ast:return", "ast:local",
                  "ast:cast", "ast:new-array", "ast:class-name", "ast:extends", "ast:implements",
                  "field", "param", "return", "local", "cast", "instanceof", "const-class", "new-instance",
                  "static-field-owner", "invoke-owner", "new-array", "class-name", "extends", "implements", "constructor"):
        if not acc.extra.get("source_position:" + where):
            acc.harness_error("source position %r was never extracted" % where)
    for sh in ("primitive", "default-package", "java.lang-direct", "java.lang-subpackage", "lookalike-package",
               "java.lang-not-at-start", "java-other-package", "other-package"):
        if not acc.extra.get("source_shape:" + sh):
            acc.harness_error("descriptor shape %r never rendered in a source position" % sh)
    if judge_text("otation.Retention[]", "[Ljava/lang/annotation/Retention;", None,
                  ref_element("Ljava/lang/annotation/Retention;")) is None:
        acc.harness_error("oracle self-test: wrong source text accepted")
    acc.note("source positions accept the canonical or the fully qualified name (HEAD prints the canonical form in member "
             "positions and the fully qualified one after extends/implements); new-array prints the size in the last "
             "bracket pair (new X[][3]) - placement not judged, only the number of pairs")
