"""C15  String and class-usage cross-references are exact   (engine E2: bounded structure enumeration).

Space: the model of gen/xrefmodels.xm3 (see checks/c13.py) -- the body of A.m<k> is every sequence of <= 2 (thorough: <= 3)
items of the reference alphabet, whose string part is const-string / const-string/jumbo on {"s1", "s2", "LB;" (a value that is
also a type descriptor of the file), "" (the empty string)} and whose class part is const-class on {LB;, LA; (self), Lext/E;} x array dimension {0, 1, 2, 3} and
{[I, [[I}, new-instance on the same classes x {0, 1, 2} and [I (one 255-dimensional type alone), plus check-cast / instance-of /
new-array / filled-new-array on 0..2-dimensional types as type references that are NOT class-usage xrefs.  A.n and D.r (second DEX) load the
same strings and use the same classes, so every StringAnalysis / ClassAnalysis is shared across methods and DEX files.
Oracle (ref/xref.py): StringAnalysis(value).get_xref_from(with_offset=True) == exactly the const-strings of that value;
ClassAnalysis(T).get_xref_new_instance / get_xref_const_class and the method-side lists == exactly the new-instance /
const-class instructions on T, for T another class.
"""
from mc.core import Acc
from checks import xref_common as C

PROPERTY = "C15"
LEVEL = "exploration"
RULE = ("every body of <= 2 (thorough <= 3) items over a 169-item reference alphabet + 160 extended single items, one generated "
        "program per body; non-trivial = the body contains a const-string, new-instance or const-class; distinct by construction "
        "(the sequence is the enumeration index)")
ASSUMPTIONS = ["an array operand ([LB;, [[LB;, ...) is a use of its ELEMENT class whatever the number of dimensions and must be listed there "
               "(androguard's documented behaviour for one dimension, demanded uniformly for every dimension)",
               "operands whose (element) class is the method's own class are 'not another class': listed or not, but uniformly",
               "references of a class to itself must be treated uniformly within one analysis (all listed or none): a mix means the "
               "result depends on processing order (key class-use:other-then-self)",
               "arrays of primitives have no class: nothing may appear anywhere for them",
               "only the with_offset=True form of StringAnalysis.get_xref_from is judged",
               "class-level get_xref_to/get_xref_from entries of kind new-instance/const-class are not judged (documented as unreliable)",
               "trusted: gen/dexgen.py, gen/dalvik.py, ref/xref.py (two derivations compared on every model)"]
MANIFEST = {
    "engine": "E2-structures",
    "technique": "exhaustive enumeration of short const-string / new-instance / const-class sequences in generated DEX models against a reference relation",
    "text": "Every method body of up to 2 (thorough: 3) instructions over const-string, const-string/jumbo, new-instance and "
            "const-class on internal, self, external, object-array and primitive-array operands, interleaved with invokes, field "
            "accesses and other type-referencing instructions, is written by an independent DEX writer and analysed; every "
            "StringAnalysis, ClassAnalysis and MethodAnalysis list is compared for equality (method identity and byte offset) "
            "with the relation derived from the model.  Complete for the stated bound.",
    "note": "Trusted: gen/dexgen.py, gen/dalvik.py, ref/xref.py. Self operands are accepted listed or not listed, but uniformly.",
}


def space(ctx):
    return C.xm3_space(ctx)


def shards(ctx):
    import androguard.core.analysis.analysis  # noqa  (warm the import before the pool forks)
    C.freeze_heap()
    return C.xm3_shards(ctx)


def _relevant(item):
    return item[0] in ("const-string", "const-string/jumbo", "new-instance", "const-class")


def _outcome(run, k):
    ma = run.ma(run.gen(k))
    if ma is None:
        return None
    o = [("n", c.name, off) for c, off in ma.get_xref_new_instance()] + [("c", c.name, off) for c, off in ma.get_xref_const_class()]
    for v, sa in run.dx.get_strings_analysis().items():
        o += [("s", v, off) for _, m, off in sa.get_xref_from(with_offset=True) if m is ma]
    return tuple(sorted(o))


def run_shard(ctx, shard):
    acc = Acc()
    C.explore_xm3(ctx, shard, C.judge_c15, acc, (False,), _relevant, _outcome)
    return acc


def replay(ctx, w):
    return C.replay_xm3(w, C.judge_c15)


def finalize(ctx, acc):
    x = acc.extra
    need = ["string:const-string", "string:const-string/jumbo", "string-value:''", "class-use of a class that also references itself"]
    need += ["%s:%s" % (op, tk) for op in ("new-instance", "const-class")
             for tk in ("internal", "internal:cross-dex", "self", "external", "array-of-primitive", "array-dim1:internal",
                        "array-dim2:internal", "array-dim2:external", "array-dim2:self", "array-dim1:self")
             if not (op == "const-class" and tk == "internal:cross-dex")]
    missing = [k for k in need if not x.get(k)]
    if missing:
        acc.harness_error("vacuity: never exercised: %r" % missing)
    if len(acc.outcomes) < (60 if acc.n > 5000 else 10):
        acc.harness_error("vacuity: only %d distinct string/class-usage observations over %d bodies" % (len(acc.outcomes), acc.n))
