\* TLC configuration for SessionIdsAtomic.tla.  checks/c36.py rewrites N and PreRows into a scratch copy.
CONSTANTS
  N = 2
  PreRows = {1}
INIT Init
NEXT Next
INVARIANT TypeOK
INVARIANT AllCreated
INVARIANT DistinctIds
INVARIANT NewIds
