------------------------- MODULE SessionIdsAtomic -------------------------
(***************************************************************************)
(* Abstract model of the REPAIRED protocol of                              *)
(* androguard.session.Session.__init__ (property C36): the constructor     *)
(* issues one statement on table session,                                  *)
(*     session_id = table_session.insert(dict())       -- Insert(p)        *)
(* and the database allocates the primary key inside that statement        *)
(* (SQLite INTEGER PRIMARY KEY: largest rowid + 1, 1 on an empty table).   *)
(* `rows` is the set of primary keys, `got[p]` the id process p received   *)
(* (0 = none yet), `pc[p]` its control state.  The primary-key failure     *)
(* branch is kept so that the invariants say something; it is unreachable. *)
(*                                                                         *)
(* checks/c36.py selects this model when it OBSERVES one scheduling point  *)
(* (a single insert) per constructor, instantiates N / PreRows from what   *)
(* it observed, replays every maximal path of the state graph on real      *)
(* worker processes and compares step by step.  It never decides C36.      *)
(***************************************************************************)
EXTENDS Naturals, FiniteSets

CONSTANTS N,        \* number of concurrent constructors
          PreRows   \* ids already in the table

VARIABLES rows, pc, got

vars  == <<rows, pc, got>>
Procs == 1..N

Max(S)    == CHOOSE x \in S : \A y \in S : y <= x
NextId(S) == IF S = {} THEN 1 ELSE Max(S) + 1

Init == /\ rows = PreRows
        /\ pc   = [p \in Procs |-> "insert"]
        /\ got  = [p \in Procs |-> 0]

Insert(p) == /\ pc[p] = "insert"
             /\ LET id == NextId(rows) IN
                  IF id \in rows
                    THEN /\ pc' = [pc EXCEPT ![p] = "failed"]
                         /\ UNCHANGED <<rows, got>>
                    ELSE /\ rows' = rows \cup {id}
                         /\ got'  = [got EXCEPT ![p] = id]
                         /\ pc'   = [pc EXCEPT ![p] = "done"]

Next == \E p \in Procs : Insert(p)

Spec == Init /\ [][Next]_vars

TypeOK == /\ rows \subseteq Nat
          /\ pc \in [Procs -> {"insert", "done", "failed"}]
          /\ got \in [Procs -> Nat]

AllCreated == \A p \in Procs : pc[p] # "failed"
DistinctIds == \A p, q \in Procs :
                 (p # q /\ pc[p] = "done" /\ pc[q] = "done") => got[p] # got[q]
NewIds == \A p \in Procs : pc[p] = "done" => got[p] \notin PreRows
=============================================================================
