---------------------------- MODULE SessionIds ----------------------------
(***************************************************************************)
(* Abstract model of the TWO-STEP protocol of                              *)
(* androguard.session.Session.__init__ run by N processes on one database  *)
(* (property C36), as it was before the repair and as a regression would   *)
(* re-introduce it:                                                        *)
(*     session_id = <id computed from the rows read>   -- Read(p)          *)
(*     table_session.insert(dict(id=session_id))       -- Insert(p)        *)
(* Rule = "count": id = number of rows (the original code, len(table));    *)
(* Rule = "max"  : id = max(id)+1, 1 on an empty table.                    *)
(* `rows` is the set of primary keys in table session, `seen[p]` the id    *)
(* process p computed, `pc[p]` its control state.  An insert of a key that *)
(* is already present fails (primary-key constraint) and ends the          *)
(* constructor with an error ("failed").  PreRows exist before the race.   *)
(*                                                                         *)
(* checks/c36.py selects this model when it OBSERVES two scheduling points *)
(* (one read, one one-parameter insert) per constructor, instantiates      *)
(* N / PreRows / Rule from what it observed, replays every maximal path of *)
(* the state graph on real worker processes and compares step by step.     *)
(* The model never decides C36.                                            *)
(***************************************************************************)
EXTENDS Naturals, FiniteSets

CONSTANTS N,        \* number of concurrent constructors
          PreRows,  \* ids already in the table
          Rule      \* "count" | "max"

VARIABLES rows, pc, seen

vars  == <<rows, pc, seen>>
Procs == 1..N

Max(S)    == CHOOSE x \in S : \A y \in S : y <= x
NextId(S) == IF Rule = "count" THEN Cardinality(S)
             ELSE IF S = {} THEN 1 ELSE Max(S) + 1

Init == /\ rows = PreRows
        /\ pc   = [p \in Procs |-> "read"]
        /\ seen = [p \in Procs |-> 0]

Read(p) == /\ pc[p] = "read"
           /\ seen' = [seen EXCEPT ![p] = NextId(rows)]
           /\ pc'   = [pc EXCEPT ![p] = "insert"]
           /\ UNCHANGED rows

Insert(p) == /\ pc[p] = "insert"
             /\ IF seen[p] \in rows
                  THEN /\ pc' = [pc EXCEPT ![p] = "failed"]
                       /\ UNCHANGED rows
                  ELSE /\ rows' = rows \cup {seen[p]}
                       /\ pc'   = [pc EXCEPT ![p] = "done"]
             /\ UNCHANGED seen

Next == \E p \in Procs : Read(p) \/ Insert(p)

Spec == Init /\ [][Next]_vars

TypeOK == /\ rows \subseteq Nat
          /\ pc \in [Procs -> {"read", "insert", "done", "failed"}]
          /\ seen \in [Procs -> Nat]

\* C36 on the model: every constructor succeeds and ids are pairwise distinct.
AllCreated == \A p \in Procs : pc[p] # "failed"
DistinctIds == \A p, q \in Procs :
                 (p # q /\ pc[p] = "done" /\ pc[q] = "done") => seen[p] # seen[q]
=============================================================================
