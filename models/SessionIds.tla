---------------------------- MODULE SessionIds ----------------------------
(***************************************************************************)
(* Abstract model of androguard.session.Session.__init__ run by N          *)
(* processes on one database (property C36):                               *)
(*     session_id = len(table_session)          -- Read(p)                 *)
(*     table_session.insert(dict(id=session_id)) -- Insert(p)              *)
(* `rows` is the set of primary keys in table session, `seen[p]` the count *)
(* process p read, `pc[p]` its control state.  An insert of a key that is  *)
(* already present fails (primary-key constraint) and ends the constructor *)
(* with an error ("failed").  Pre rows exist before the race.              *)
(*                                                                         *)
(* The model is an independent enumerator of the interleavings: every      *)
(* maximal path of its state graph is replayed on real worker processes    *)
(* (checks/c36.py) and compared step by step.  It never decides C36.       *)
(***************************************************************************)
EXTENDS Naturals, FiniteSets

CONSTANTS N,      \* number of concurrent constructors
          Pre     \* number of sessions already in the table (ids 0 .. Pre-1)

VARIABLES rows, pc, seen

vars  == <<rows, pc, seen>>
Procs == 1..N

Init == /\ rows = {i \in 0..Pre : i < Pre}
        /\ pc   = [p \in Procs |-> "read"]
        /\ seen = [p \in Procs |-> 0]

Read(p) == /\ pc[p] = "read"
           /\ seen' = [seen EXCEPT ![p] = Cardinality(rows)]
           /\ pc'   = [pc EXCEPT ![p] = "insert"]
           /\ UNCHANGED rows

Insert(p) == /\ pc[p] = "insert"
             /\ IF seen[p] \in rows
                  THEN /\ pc' = [pc EXCEPT ![p] = "failed"]
                       /\ UNCHANGED rows
                  ELSE /\ rows' = rows \cup {seen[p]}
                       /\ pc'   = [pc EXCEPT ![p] = "done"]
             /\ UNCHANGED seen

Next == \E p \in Procs : Read(p) \/ Insert(p)

Spec == Init /\ [][Next]_vars

TypeOK == /\ rows \subseteq Nat
          /\ pc \in [Procs -> {"read", "insert", "done", "failed"}]
          /\ seen \in [Procs -> Nat]

\* C36 on the model: every constructor succeeds and ids are pairwise distinct.
AllCreated == \A p \in Procs : pc[p] # "failed"
DistinctIds == \A p, q \in Procs :
                 (p # q /\ pc[p] = "done" /\ pc[q] = "done") => seen[p] # seen[q]
=============================================================================
