\* TLC configuration for SessionIds.tla.  checks/c36.py rewrites N, PreRows and Rule into a scratch copy.
CONSTANTS
  N = 2
  PreRows = {0}
  Rule = "count"
INIT Init
NEXT Next
INVARIANT TypeOK
INVARIANT AllCreated
INVARIANT DistinctIds
