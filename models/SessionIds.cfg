\* TLC configuration for SessionIds.tla.  checks/c36.py rewrites N (2, 3) and Pre into a scratch copy.
CONSTANTS
  N = 2
  Pre = 1
INIT Init
NEXT Next
INVARIANT TypeOK
INVARIANT AllCreated
INVARIANT DistinctIds
