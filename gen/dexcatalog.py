"""Small fixed DEX models shared by several checks (C07, C09, C35 ...)."""
from gen import dalvik as D
from gen.dexgen import (ACC_ABSTRACT, ACC_CONSTRUCTOR, ACC_NATIVE, ACC_PRIVATE, ACC_PUBLIC, ACC_STATIC, EV, Annotation,
                        Class, Code, Dex, Field, Handler, Method)


def m_empty_class():
    return Dex([Class("La/Empty;")])


def m_fields():
    return Dex([Class("La/F;", sfields=[Field("s", "I", ACC_STATIC | ACC_PUBLIC), Field("t", "Ljava/lang/String;", ACC_STATIC)],
                      ifields=[Field("i", "[J", ACC_PRIVATE)], static_values=[EV("int", -2), EV("string", "hi")],
                      interfaces=("La/I;",), source="F.java")])


def _body(ix):
    a = D.Asm()
    a.ins("const-string", 0, ix.string("hello"))
    a.ins("sget", 1, ix.field("La/M;", "s", "I"))
    a.ins("invoke-static", ix.method("La/M;", "t", "I", ("I", "J")), [1, 2, 3])
    a.ins("return-void")
    return a.assemble()[0]


def m_method():
    return Dex([Class("La/M;", sfields=[Field("s", "I", ACC_STATIC)],
                      dmethods=[Method("<init>", "V", (), ACC_PUBLIC | ACC_CONSTRUCTOR, Code(1, 1, 0, D.enc("return-void"))),
                                Method("t", "I", ("I", "J"), ACC_STATIC | ACC_PUBLIC, Code(4, 3, 0, D.enc("const/4", 0, 1) + D.enc("return", 0)))],
                      vmethods=[Method("m", "V", ("I",), ACC_PUBLIC,
                                       Code(5, 2, 3, _body, tries=[(0, 2, 0)],
                                            handlers=[Handler([("Ljava/lang/Exception;", 7)], catch_all=7)])),
                                Method("abs", "V", (), ACC_PUBLIC | ACC_ABSTRACT),
                                Method("nat", "[I", ("D", "Ljava/lang/String;"), ACC_PUBLIC | ACC_NATIVE)])])


def m_full():
    """Everything dexgen can emit: two classes, annotations, encoded arrays, debug info, type lists, tries."""
    dbg = bytes([1, 1]) + b"\x00" + bytes([0x07, 0x0e, 0x00])      # line_start=1, 1 param (no name), prologue_end, special, end
    A = Class("La/A;", interfaces=("La/I1;", "La/I2;"), source="A.java",
              sfields=[Field("x", "I", ACC_PUBLIC | ACC_STATIC), Field("y", "J", ACC_STATIC)],
              ifields=[Field("f", "Ljava/lang/String;")],
              dmethods=[Method("<init>", "V", (), ACC_PUBLIC | ACC_CONSTRUCTOR, Code(1, 1, 0, D.enc("return-void")))],
              vmethods=[Method("m", "V", ("I",), ACC_PUBLIC,
                               Code(5, 2, 3, _body_full, tries=[(0, 2, 0), (4, 3, 1)],
                                    handlers=[Handler([("Ljava/lang/Exception;", 10)], catch_all=10), Handler([], catch_all=10)],
                                    debug=dbg))],
              static_values=[EV("int", -1), EV("long", 1 << 40)],
              annotations=[Annotation("La/Ann;", [("value", EV("string", "q")), ("n", EV("byte", -3)),
                                                  ("arr", EV("array", [EV("int", 1), EV("type", "La/B;")])),
                                                  # values that reference the id tables (as EnclosingMethod annotations do)
                                                  ("meth", EV("method", ("La/B;", "t", "I", ("I", "J")))),
                                                  ("fld", EV("field", ("La/B;", "s", "I"))),
                                                  ("en", EV("enum", ("La/B;", "s", "I")))])])
    A.field_annotations = [(A.ifields[0], [Annotation("La/Ann;", [("value", EV("string", "onfield"))])])]
    A.method_annotations = [(A.vmethods[0], [Annotation("La/Ann;", [("value", EV("boolean", True))], visibility=2)])]
    B = Class("La/B;", sfields=[Field("s", "I", ACC_STATIC)],
              dmethods=[Method("t", "I", ("I", "J"), ACC_STATIC | ACC_PUBLIC, Code(4, 3, 0, D.enc("const/4", 0, 1) + D.enc("return", 0)))])
    return Dex([A, B])


def _body_full(ix):
    a = D.Asm()
    a.ins("const-string", 0, ix.string("hello"))                       # 0..1
    a.ins("sget", 1, ix.field("La/B;", "s", "I"))                      # 2..3
    a.ins("invoke-static", ix.method("La/B;", "t", "I", ("I", "J")), [1, 2, 3])   # 4..6
    a.ins("new-instance", 0, ix.type("Lext/E;"))                       # 7..8
    a.ins("nop")                                                        # 9
    a.ins("return-void")                                                # 10
    return a.assemble()[0]


TINY = {"empty": m_empty_class, "fields": m_fields, "method": m_method}
ALL = dict(TINY, full=m_full)
