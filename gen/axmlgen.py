"""Independent binary-XML (AXML) writer and strict reader, written from the Android format definition
(frameworks/base/libs/androidfw/include/androidfw/ResourceTypes.h: ResChunk_header, ResStringPool_header,
ResXMLTree_header / _node / _namespaceExt / _attrExt / _attribute / _endElementExt / _cdataExt, Res_value), not
from androguard's parser.

Model (plain JSON-able data, so a document is its own replay witness):

    doc  = {"utf8": bool, "resmap": bool, "root": elem, ["autoidx": bool], ["poolorder": ...],
            ["attrstart": 20|24|..], ["attrsize": 20|24|..], ["attrfill": byte]}
            attrstart = ResXMLTree_attrExt.attributeStart (offset of the first attribute from the start of the attrExt;
            > 20 leaves padding after the 20-byte attrExt), attrsize = attributeSize (stride of the attribute array;
            > 20 leaves trailing bytes after each 20-byte ResXMLTree_attribute), attrfill = value of those extra bytes.
            Readers must locate attribute i at attrExt + attributeStart + i * attributeSize.
    elem = {"ns": uri|None, "name": str, "decl": [[prefix, uri], ...], "attrs": [attr, ...], "kids": [elem|text, ...]}
    attr = {"ns": uri|None, "name": str, "t": type code, "d": 32-bit data, ["s": str (string types)], ["rid": int|None]}
    text = {"text": str}

"decl" are the namespace declarations that wrap the element (START_NAMESPACE chunks precede its START_ELEMENT,
END_NAMESPACE chunks follow its END_ELEMENT in reverse order), the way aapt emits xmlns attributes.
With "resmap" the attribute names carrying a "rid" are placed first in the pool (one pool entry per distinct
(name, rid), never shared with ordinary strings - the same layout rule aapt follows) and a RES_XML_RESOURCE_MAP
chunk lists their ids.

Two layers:   build(doc) -> raw      raw = {"utf8", "flags", "strings", "resids", "events"}
              serialize(raw) -> bytes
              parse(bytes) -> raw     strict: every size / alignment / bound / terminator rule is enforced (ValueError)
              to_doc(raw) -> doc
so that  serialize(parse(x)) == x  can be tested on files produced by aapt (validation of the byte layer against
real-world output) and  to_doc(parse(serialize(build(d)))) == normalise(d)  on every generated document.
"""
import struct

RES_NULL_TYPE = 0x0000
RES_STRING_POOL_TYPE = 0x0001
RES_XML_TYPE = 0x0003
RES_XML_START_NAMESPACE_TYPE = 0x0100
RES_XML_END_NAMESPACE_TYPE = 0x0101
RES_XML_START_ELEMENT_TYPE = 0x0102
RES_XML_END_ELEMENT_TYPE = 0x0103
RES_XML_CDATA_TYPE = 0x0104
RES_XML_RESOURCE_MAP_TYPE = 0x0180

SORTED_FLAG = 1 << 0
UTF8_FLAG = 1 << 8
NO_INDEX = 0xFFFFFFFF

TYPE_NULL = 0x00
TYPE_REFERENCE = 0x01
TYPE_ATTRIBUTE = 0x02
TYPE_STRING = 0x03
TYPE_FLOAT = 0x04
TYPE_DIMENSION = 0x05
TYPE_FRACTION = 0x06
TYPE_INT_DEC = 0x10
TYPE_INT_HEX = 0x11
TYPE_INT_BOOLEAN = 0x12
TYPE_INT_COLOR_ARGB8 = 0x1C
TYPE_INT_COLOR_RGB8 = 0x1D
TYPE_INT_COLOR_ARGB4 = 0x1E
TYPE_INT_COLOR_RGB4 = 0x1F

ANDROID_NS = "http://schemas.android.com/apk/res/android"


# ------------------------------------------------------------------------------------------------ string pool
def _len8(n):
    if n > 0x7FFF:
        raise ValueError("UTF-8 pool string too long: %d" % n)
    if n > 0x7F:
        return bytes([(n >> 8) | 0x80, n & 0xFF])
    return bytes([n])


def _len16(n):
    if n > 0x7FFFFFFF:
        raise ValueError("UTF-16 pool string too long: %d" % n)
    if n > 0x7FFF:
        return struct.pack("<HH", (n >> 16) | 0x8000, n & 0xFFFF)
    return struct.pack("<H", n)


def utf16_units(s):
    return len(s.encode("utf-16-le", "surrogatepass")) // 2


def encode_string(s, utf8):
    """One pool entry: length prefix(es), characters, NUL terminator."""
    if utf8:
        b = s.encode("utf-8", "surrogatepass")
        return _len8(utf16_units(s)) + _len8(len(b)) + b + b"\x00"
    b = s.encode("utf-16-le", "surrogatepass")
    return _len16(len(b) // 2) + b + b"\x00\x00"


def string_pool(strings, utf8, flags=None, share_duplicates=False):
    """ResStringPool chunk: header(0x1C) | string offsets | [no styles] | string data padded to 4."""
    if flags is None:
        flags = UTF8_FLAG if utf8 else 0
    offs, data, seen = [], bytearray(), {}
    for s in strings:
        if share_duplicates and s in seen:
            offs.append(seen[s])
            continue
        seen[s] = len(data)
        offs.append(len(data))
        data += encode_string(s, utf8)
    while len(data) % 4:
        data.append(0)
    header_size = 0x1C
    strings_start = header_size + 4 * len(strings)
    size = strings_start + len(data)
    out = struct.pack("<HHIIIIII", RES_STRING_POOL_TYPE, header_size, size, len(strings), 0, flags,
                      strings_start, 0)
    out += b"".join(struct.pack("<I", o) for o in offs)
    return out + bytes(data)


# ------------------------------------------------------------------------------------------------ model -> raw
class _Pool:
    def __init__(self):
        self.strings = []
        self.index = {}

    def add(self, s, key=None):
        k = ("s", s) if key is None else key
        i = self.index.get(k)
        if i is None:
            i = len(self.strings)
            self.strings.append(s)
            self.index[k] = i
        return i


def _walk(e):
    yield e
    for k in e.get("kids", ()):
        if "text" not in k:
            yield from _walk(k)


def build(doc):
    """doc -> raw (pool strings, resource ids, chunk events with pool indices).

    doc["poolorder"]: "first-use" (default) | "reversed" | "sorted" - order of the pool entries that are not bound to the
    resource map (aapt and aapt2 order their pools differently; indices are an input dimension of their own)."""
    order = doc.get("poolorder") or "first-use"
    if order == "first-use":
        return _build(doc, None)
    first = _build(doc, None)
    nmap = len(first["resids"])
    keys = first["_keys"]
    rest = keys[nmap:]
    rest = rest[::-1] if order == "reversed" else sorted(rest, key=lambda k: (k[1], repr(k)))
    if order not in ("reversed", "sorted"):
        raise ValueError("unknown poolorder %r" % (order,))
    return _build(doc, keys[:nmap] + rest)


def _build(doc, preset):
    pool = _Pool()
    if preset:
        for k in preset:
            pool.add(k[1], k)
    resids = []
    use_map = bool(doc.get("resmap"))
    seen_r = set()
    if use_map:
        # resource-mapped attribute names come first, in document order, one entry per (name, rid)
        for e in _walk(doc["root"]):
            for a in e.get("attrs", ()):
                rid = a.get("rid")
                if rid is not None and ("r", a["name"], rid) not in seen_r:
                    seen_r.add(("r", a["name"], rid))
                    pool.add(a["name"], ("r", a["name"], rid))
                    resids.append(rid)
    events = []
    line = [1]
    layout = (doc.get("attrstart") or 0x14, doc.get("attrsize") or 0x14, doc.get("attrfill") or 0)
    if layout[0] < 0x14 or layout[1] < 0x14 or layout[0] % 4 or layout[1] % 4 or not 0 <= layout[2] <= 255:
        raise ValueError("attribute layout %r" % (layout,))
    if layout[:2] == (0x14, 0x14):
        layout = (0x14, 0x14, 0)

    def ref(s):
        return NO_INDEX if s is None else pool.add(s)

    def emit(e):
        line[0] += 1
        ln = line[0]
        for p, u in e.get("decl", ()):
            events.append(("ns+", ln, NO_INDEX, pool.add(p), pool.add(u)))
        attrs = []
        idx = [0, 0, 0]
        for n, a in enumerate(e.get("attrs", ())):
            rid = a.get("rid") if use_map else None
            name = pool.add(a["name"], ("r", a["name"], rid)) if rid is not None else pool.add(a["name"])
            t, d = a["t"], a["d"] & 0xFFFFFFFF
            raw = NO_INDEX
            if t == TYPE_STRING:
                raw = d = pool.add(a["s"])
            elif a.get("raw") is not None:
                raw = pool.add(a["raw"])
            attrs.append((ref(a.get("ns")), name, raw, t, d))
            if doc.get("autoidx") and a.get("ns") in (None, ANDROID_NS):
                if a["name"] == "id" and a.get("ns") == ANDROID_NS and not idx[0]:
                    idx[0] = n + 1
                if a["name"] == "class" and a.get("ns") is None and not idx[1]:
                    idx[1] = n + 1
                if a["name"] == "style" and a.get("ns") is None and not idx[2]:
                    idx[2] = n + 1
        ev = ("el+", ln, NO_INDEX, ref(e.get("ns")), pool.add(e["name"]), attrs, idx[0], idx[1], idx[2])
        if layout != (0x14, 0x14, 0):
            ev += (layout,)
        events.append(ev)
        for k in e.get("kids", ()):
            if "text" in k:
                line[0] += 1
                events.append(("cdata", line[0], NO_INDEX, pool.add(k["text"])))
            else:
                emit(k)
        line[0] += 1
        ln = line[0]
        events.append(("el-", ln, NO_INDEX, ref(e.get("ns")), pool.add(e["name"])))
        for p, u in reversed(e.get("decl", ())):
            events.append(("ns-", ln, NO_INDEX, pool.add(p), pool.add(u)))

    emit(doc["root"])
    utf8 = bool(doc.get("utf8"))
    keys = sorted(pool.index, key=pool.index.get)
    return {"utf8": utf8, "flags": UTF8_FLAG if utf8 else 0, "strings": pool.strings, "resids": resids,
            "events": events, "_keys": keys}


# ------------------------------------------------------------------------------------------------ raw -> bytes
def _node(ctype, line, comment, ext):
    size = 0x10 + len(ext)
    return struct.pack("<HHIII", ctype, 0x10, size, line, comment) + ext


def serialize(raw, share_duplicates=False):
    body = string_pool(raw["strings"], raw["utf8"], raw.get("flags"), share_duplicates)
    if raw.get("resids") or raw.get("force_resmap"):
        ids = raw.get("resids", [])
        body += struct.pack("<HHI", RES_XML_RESOURCE_MAP_TYPE, 8, 8 + 4 * len(ids))
        body += b"".join(struct.pack("<I", r) for r in ids)
    for ev in raw["events"]:
        k = ev[0]
        if k == "ns+":
            body += _node(RES_XML_START_NAMESPACE_TYPE, ev[1], ev[2], struct.pack("<II", ev[3], ev[4]))
        elif k == "ns-":
            body += _node(RES_XML_END_NAMESPACE_TYPE, ev[1], ev[2], struct.pack("<II", ev[3], ev[4]))
        elif k == "el+":
            _, ln, cm, ns, name, attrs, idi, cli, sti = ev[:9]
            astart, asize, fill = ev[9] if len(ev) > 9 else (0x14, 0x14, 0)
            ext = struct.pack("<IIHHHHHH", ns, name, astart, asize, len(attrs), idi, cli, sti)
            ext += bytes([fill]) * (astart - 0x14)
            for ans, aname, araw, t, d in attrs:
                ext += struct.pack("<IIIHBBI", ans, aname, araw, 8, 0, t, d) + bytes([fill]) * (asize - 0x14)
            body += _node(RES_XML_START_ELEMENT_TYPE, ln, cm, ext)
        elif k == "el-":
            body += _node(RES_XML_END_ELEMENT_TYPE, ev[1], ev[2], struct.pack("<II", ev[3], ev[4]))
        elif k == "cdata":
            typed = ev[4] if len(ev) > 4 else (TYPE_NULL, 0)
            body += _node(RES_XML_CDATA_TYPE, ev[1], ev[2], struct.pack("<IHBBI", ev[3], 8, 0, typed[0], typed[1]))
        else:
            raise ValueError("unknown event %r" % (k,))
    return struct.pack("<HHI", RES_XML_TYPE, 8, 8 + len(body)) + body


def write(doc):
    return serialize(build(doc))


# ------------------------------------------------------------------------------------------------ strict reader
def _need(cond, msg):
    if not cond:
        raise ValueError(msg)


def _chunk(buf, off, end):
    _need(off + 8 <= end, "chunk header at %d crosses the end %d" % (off, end))
    t, hs, size = struct.unpack_from("<HHI", buf, off)
    _need(hs >= 8 and size >= hs, "chunk at %d: headerSize %d / size %d" % (off, hs, size))
    _need(hs % 4 == 0 and size % 4 == 0, "chunk at %d is not 4-aligned (%d/%d)" % (off, hs, size))
    _need(off + size <= end, "chunk at %d (size %d) exceeds its parent (%d)" % (off, size, end))
    return t, hs, size


def _read_pool(buf, off, size):
    cnt, nstyle, flags, sstart, ststart = struct.unpack_from("<IIIII", buf, off + 8)
    _need(nstyle == 0 and ststart == 0, "styled pools are not part of this writer's domain")
    _need(flags & ~(SORTED_FLAG | UTF8_FLAG) == 0, "unknown pool flags %#x" % flags)
    utf8 = bool(flags & UTF8_FLAG)
    _need(0x1C + 4 * cnt <= size, "offset array exceeds the pool chunk")
    if cnt:
        _need(sstart == 0x1C + 4 * cnt, "stringsStart %d does not follow the offset array" % sstart)
    data = buf[off + sstart: off + size] if cnt else b""
    strings = []
    nxt = 0
    for i in range(cnt):
        o = struct.unpack_from("<I", buf, off + 0x1C + 4 * i)[0]
        _need(o == nxt, "string %d at offset %d, expected contiguous %d" % (i, o, nxt))
        if utf8:
            def l8(p):
                _need(p < len(data), "length prefix outside pool")
                a = data[p]
                if a & 0x80:
                    _need(p + 1 < len(data), "length prefix outside pool")
                    return ((a & 0x7F) << 8) | data[p + 1], p + 2
                return a, p + 1
            u16, p = l8(o)
            u8, p = l8(p)
            _need(p + u8 < len(data) and data[p + u8] == 0, "string %d not NUL-terminated inside pool" % i)
            s = data[p:p + u8].decode("utf-8", "surrogatepass")
            _need(utf16_units(s) == u16, "string %d: UTF-16 length %d does not match" % (i, u16))
            nxt = p + u8 + 1
        else:
            _need(o + 2 <= len(data), "length prefix outside pool")
            a = struct.unpack_from("<H", data, o)[0]
            p = o + 2
            if a & 0x8000:
                _need(p + 2 <= len(data), "length prefix outside pool")
                a = ((a & 0x7FFF) << 16) | struct.unpack_from("<H", data, p)[0]
                p += 2
            _need(p + 2 * a + 2 <= len(data) and data[p + 2 * a:p + 2 * a + 2] == b"\0\0",
                  "string %d not NUL-terminated inside pool" % i)
            s = data[p:p + 2 * a].decode("utf-16-le", "surrogatepass")
            nxt = p + 2 * a + 2
        strings.append(s)
    pad = data[nxt:]
    _need(len(pad) < 4 and not any(pad), "pool padding is %r" % bytes(pad))
    return utf8, flags, strings


def parse(buf):
    """bytes -> raw, enforcing the structure this writer claims to produce (ValueError otherwise)."""
    buf = bytes(buf)
    t, hs, size = _chunk(buf, 0, len(buf))
    _need(t == RES_XML_TYPE and hs == 8 and size == len(buf), "file header %r/%r/%r for %d bytes" % (t, hs, size, len(buf)))
    off = 8
    t, hs, sz = _chunk(buf, off, size)
    _need(t == RES_STRING_POOL_TYPE and hs == 0x1C, "first chunk must be a string pool with header 0x1C")
    utf8, flags, strings = _read_pool(buf, off, sz)
    off += sz
    raw = {"utf8": utf8, "flags": flags, "strings": strings, "resids": [], "events": []}
    n = len(strings)

    def sref(i, what, optional=True):
        _need((optional and i == NO_INDEX) or i < n, "%s string index %#x outside the pool (%d)" % (what, i, n))
        return i

    first = True
    depth = 0
    seen_root = False
    nsstack = []
    elstack = []
    while off < size:
        t, hs, sz = _chunk(buf, off, size)
        if t == RES_XML_RESOURCE_MAP_TYPE:
            _need(first and hs == 8, "resource map must directly follow the pool")
            raw["resids"] = list(struct.unpack_from("<%dI" % ((sz - 8) // 4), buf, off + 8))
            _need(len(raw["resids"]) <= n, "resource map longer than the pool")
            if not raw["resids"]:
                raw["force_resmap"] = True
            off += sz
            first = False
            continue
        first = False
        _need(hs == 0x10, "node chunk %#x with headerSize %d" % (t, hs))
        line, comment = struct.unpack_from("<II", buf, off + 8)
        sref(comment, "comment")
        p = off + 0x10
        if t in (RES_XML_START_NAMESPACE_TYPE, RES_XML_END_NAMESPACE_TYPE):
            _need(sz == 0x18, "namespace chunk size %d" % sz)
            pre, uri = struct.unpack_from("<II", buf, p)
            sref(pre, "prefix")
            sref(uri, "uri", optional=False)
            if t == RES_XML_START_NAMESPACE_TYPE:
                nsstack.append((pre, uri, depth))
                raw["events"].append(("ns+", line, comment, pre, uri))
            else:
                _need(nsstack and nsstack[-1] == (pre, uri, depth), "END_NAMESPACE does not match the innermost open one")
                nsstack.pop()
                raw["events"].append(("ns-", line, comment, pre, uri))
        elif t == RES_XML_START_ELEMENT_TYPE:
            _need(sz >= 0x24, "start element too small")
            ns, name, astart, asize, acount, idi, cli, sti = struct.unpack_from("<IIHHHHHH", buf, p)
            sref(ns, "element ns")
            sref(name, "element name", optional=False)
            _need(astart >= 0x14 and asize >= 0x14 and astart % 4 == 0 and asize % 4 == 0,
                  "attributeStart/Size %d/%d" % (astart, asize))
            _need(sz == 0x10 + astart + asize * acount, "start element size %d for %d attributes" % (sz, acount))
            extra = buf[p + 0x14:p + astart]
            for i in range(acount):
                extra += buf[p + astart + asize * i + 0x14:p + astart + asize * (i + 1)]
            fill = extra[0] if extra else 0
            _need(all(b == fill for b in extra), "non-uniform filler bytes in the attribute area")
            _need(max(idi, cli, sti) <= acount, "id/class/style index beyond the attributes")
            _need(not (seen_root and depth == 0), "second root element")
            attrs = []
            for i in range(acount):
                ans, aname, araw, vsz, res0, vt, vd = struct.unpack_from("<IIIHBBI", buf, p + astart + asize * i)
                sref(ans, "attribute ns")
                sref(aname, "attribute name", optional=False)
                sref(araw, "attribute raw value")
                _need(vsz == 8 and res0 == 0, "Res_value size/res0 %d/%d" % (vsz, res0))
                if vt == TYPE_STRING:
                    sref(vd, "string value", optional=False)
                attrs.append((ans, aname, araw, vt, vd))
            ev = ("el+", line, comment, ns, name, attrs, idi, cli, sti)
            if (astart, asize) != (0x14, 0x14):
                ev += ((astart, asize, fill),)
            raw["events"].append(ev)
            elstack.append((ns, name))
            depth += 1
            seen_root = True
        elif t == RES_XML_END_ELEMENT_TYPE:
            _need(sz == 0x18, "end element size %d" % sz)
            ns, name = struct.unpack_from("<II", buf, p)
            _need(elstack and elstack[-1] == (ns, name), "END_ELEMENT does not match the open element")
            elstack.pop()
            depth -= 1
            raw["events"].append(("el-", line, comment, ns, name))
        elif t == RES_XML_CDATA_TYPE:
            _need(sz == 0x1C, "cdata size %d" % sz)
            idx, vsz, res0, vt, vd = struct.unpack_from("<IHBBI", buf, p)
            sref(idx, "cdata", optional=False)
            _need(vsz == 8 and res0 == 0, "cdata Res_value size/res0")
            _need(depth > 0, "text outside the root element")
            if (vt, vd) == (TYPE_NULL, 0):
                raw["events"].append(("cdata", line, comment, idx))
            else:
                raw["events"].append(("cdata", line, comment, idx, (vt, vd)))
        else:
            raise ValueError("unexpected chunk type %#x at %d" % (t, off))
        off += sz
    _need(off == size and not elstack and not nsstack and seen_root, "document not closed")
    return raw


def to_doc(raw):
    """raw -> model (inverse of build up to pool order and line numbers)."""
    S = raw["strings"]
    rid_of = dict(enumerate(raw["resids"]))

    def s(i):
        return None if i == NO_INDEX else S[i]

    stack = []
    pending = []
    root = None
    layouts = []
    for ev in raw["events"]:
        k = ev[0]
        if k == "ns+":
            pending.append([S[ev[3]] if ev[3] != NO_INDEX else "", S[ev[4]]])
        elif k == "el+":
            _, ln, cm, ns, name, attrs, idi, cli, sti = ev[:9]
            layouts.append(ev[9] if len(ev) > 9 else (0x14, 0x14, 0))
            e = {"ns": s(ns), "name": S[name], "decl": pending, "attrs": [], "kids": []}
            pending = []
            for ans, aname, araw, t, d in attrs:
                a = {"ns": s(ans), "name": S[aname], "t": t, "d": d}
                if t == TYPE_STRING:
                    a["s"] = S[d]
                    a["d"] = 0
                if aname in rid_of:
                    a["rid"] = rid_of[aname]
                e["attrs"].append(a)
            if stack:
                stack[-1]["kids"].append(e)
            else:
                root = e
            stack.append(e)
        elif k == "el-":
            stack.pop()
        elif k == "cdata":
            stack[-1]["kids"].append({"text": S[ev[3]]})
    doc = {"utf8": raw["utf8"], "resmap": bool(raw["resids"]), "root": root}
    if any(l[:2] != (0x14, 0x14) for l in layouts):
        _need(len(set(l[:2] for l in layouts)) == 1, "elements with different attribute layouts")
        if layouts[0][0] != 0x14:
            doc["attrstart"] = layouts[0][0]
        if layouts[0][1] != 0x14:
            doc["attrsize"] = layouts[0][1]
        fills = [l[2] for l in layouts if l[2]]
        if fills:
            doc["attrfill"] = fills[0]
    return doc


def normalise(doc):
    """The form to_doc() returns for a document built from `doc` (drops rid without a map, data of strings...)."""
    use_map = bool(doc.get("resmap"))

    def ne(e):
        out = {"ns": e.get("ns"), "name": e["name"], "decl": [list(x) for x in e.get("decl", ())], "attrs": [], "kids": []}
        for a in e.get("attrs", ()):
            b = {"ns": a.get("ns"), "name": a["name"], "t": a["t"], "d": a["d"] & 0xFFFFFFFF}
            if a["t"] == TYPE_STRING:
                b["s"] = a["s"]
                b["d"] = 0
            if use_map and a.get("rid") is not None:
                b["rid"] = a["rid"]
            out["attrs"].append(b)
        for k in e.get("kids", ()):
            out["kids"].append({"text": k["text"]} if "text" in k else ne(k))
        return out
    any_rid = use_map and any(a.get("rid") is not None for e in _walk(doc["root"]) for a in e.get("attrs", ()))
    out = {"utf8": bool(doc.get("utf8")), "resmap": any_rid, "root": ne(doc["root"])}
    astart, asize, fill = doc.get("attrstart") or 0x14, doc.get("attrsize") or 0x14, doc.get("attrfill") or 0
    if astart != 0x14:
        out["attrstart"] = astart
    if asize != 0x14:
        out["attrsize"] = asize
    has_filler = astart != 0x14 or (asize != 0x14 and any(e.get("attrs") for e in _walk(doc["root"])))
    if fill and has_filler:
        out["attrfill"] = fill
    return out


# ------------------------------------------------------------------------------------------------ lxml bridge
def from_lxml(root, utf8=False):
    """lxml element tree -> model with string-typed attributes (used to validate the writer on shipped manifests)."""
    def conv(el, parent_ns):
        tag = el.tag
        ns, name = (tag[1:].split("}", 1) if tag.startswith("{") else (None, tag))
        decl = [[p or "", u] for p, u in sorted(el.nsmap.items(), key=lambda x: x[0] or "") if parent_ns.get(p) != u]
        e = {"ns": ns, "name": name, "decl": decl, "attrs": [], "kids": []}
        for k, v in el.attrib.items():
            ans, an = (k[1:].split("}", 1) if k.startswith("{") else (None, k))
            e["attrs"].append({"ns": ans, "name": an, "t": TYPE_STRING, "d": 0, "s": v})
        if el.text is not None and el.text != "":
            e["kids"].append({"text": el.text})
        for c in el:
            if not isinstance(c.tag, str):
                continue
            e["kids"].append(conv(c, el.nsmap))
            if c.tail:
                e["kids"].append({"text": c.tail})
        return e
    return {"utf8": utf8, "resmap": False, "root": conv(root, {})}
