"""Independent Dalvik bytecode tables, assembler and reference decoder.

Typed in from the Dalvik bytecode / instruction-format specification (source.android.com), not from androguard.
A code unit is a 16-bit little-endian word.  Field names follow the spec's format diagrams.

    OPC[op] = (mnemonic, format, kind)        kind in {None,'string','type','field','method','call_site','method_handle','proto','method+proto'}
    UNUSED  = set of opcodes the spec marks unused
    units(fmt)                                 -> instruction length in code units
    decode(buf, off=0)  -> Ins                 reference decoder (raises Invalid on unused opcode / truncated buffer)
    enc(name_or_op, *args) -> bytes            assembler for one instruction (argument order per format, see _ENC)
    Asm                                        label-based method assembler with switch / array payloads
"""
import struct

_T = """
00 nop 10x
01 move 12x
02 move/from16 22x
03 move/16 32x
04 move-wide 12x
05 move-wide/from16 22x
06 move-wide/16 32x
07 move-object 12x
08 move-object/from16 22x
09 move-object/16 32x
0a move-result 11x
0b move-result-wide 11x
0c move-result-object 11x
0d move-exception 11x
0e return-void 10x
0f return 11x
10 return-wide 11x
11 return-object 11x
12 const/4 11n
13 const/16 21s
14 const 31i
15 const/high16 21h
16 const-wide/16 21s
17 const-wide/32 31i
18 const-wide 51l
19 const-wide/high16 21h
1a const-string 21c string
1b const-string/jumbo 31c string
1c const-class 21c type
1d monitor-enter 11x
1e monitor-exit 11x
1f check-cast 21c type
20 instance-of 22c type
21 array-length 12x
22 new-instance 21c type
23 new-array 22c type
24 filled-new-array 35c type
25 filled-new-array/range 3rc type
26 fill-array-data 31t
27 throw 11x
28 goto 10t
29 goto/16 20t
2a goto/32 30t
2b packed-switch 31t
2c sparse-switch 31t
2d cmpl-float 23x
2e cmpg-float 23x
2f cmpl-double 23x
30 cmpg-double 23x
31 cmp-long 23x
32 if-eq 22t
33 if-ne 22t
34 if-lt 22t
35 if-ge 22t
36 if-gt 22t
37 if-le 22t
38 if-eqz 21t
39 if-nez 21t
3a if-ltz 21t
3b if-gez 21t
3c if-gtz 21t
3d if-lez 21t
44 aget 23x
45 aget-wide 23x
46 aget-object 23x
47 aget-boolean 23x
48 aget-byte 23x
49 aget-char 23x
4a aget-short 23x
4b aput 23x
4c aput-wide 23x
4d aput-object 23x
4e aput-boolean 23x
4f aput-byte 23x
50 aput-char 23x
51 aput-short 23x
52 iget 22c field
53 iget-wide 22c field
54 iget-object 22c field
55 iget-boolean 22c field
56 iget-byte 22c field
57 iget-char 22c field
58 iget-short 22c field
59 iput 22c field
5a iput-wide 22c field
5b iput-object 22c field
5c iput-boolean 22c field
5d iput-byte 22c field
5e iput-char 22c field
5f iput-short 22c field
60 sget 21c field
61 sget-wide 21c field
62 sget-object 21c field
63 sget-boolean 21c field
64 sget-byte 21c field
65 sget-char 21c field
66 sget-short 21c field
67 sput 21c field
68 sput-wide 21c field
69 sput-object 21c field
6a sput-boolean 21c field
6b sput-byte 21c field
6c sput-char 21c field
6d sput-short 21c field
6e invoke-virtual 35c method
6f invoke-super 35c method
70 invoke-direct 35c method
71 invoke-static 35c method
72 invoke-interface 35c method
74 invoke-virtual/range 3rc method
75 invoke-super/range 3rc method
76 invoke-direct/range 3rc method
77 invoke-static/range 3rc method
78 invoke-interface/range 3rc method
7b neg-int 12x
7c not-int 12x
7d neg-long 12x
7e not-long 12x
7f neg-float 12x
80 neg-double 12x
81 int-to-long 12x
82 int-to-float 12x
83 int-to-double 12x
84 long-to-int 12x
85 long-to-float 12x
86 long-to-double 12x
87 float-to-int 12x
88 float-to-long 12x
89 float-to-double 12x
8a double-to-int 12x
8b double-to-long 12x
8c double-to-float 12x
8d int-to-byte 12x
8e int-to-char 12x
8f int-to-short 12x
90 add-int 23x
91 sub-int 23x
92 mul-int 23x
93 div-int 23x
94 rem-int 23x
95 and-int 23x
96 or-int 23x
97 xor-int 23x
98 shl-int 23x
99 shr-int 23x
9a ushr-int 23x
9b add-long 23x
9c sub-long 23x
9d mul-long 23x
9e div-long 23x
9f rem-long 23x
a0 and-long 23x
a1 or-long 23x
a2 xor-long 23x
a3 shl-long 23x
a4 shr-long 23x
a5 ushr-long 23x
a6 add-float 23x
a7 sub-float 23x
a8 mul-float 23x
a9 div-float 23x
aa rem-float 23x
ab add-double 23x
ac sub-double 23x
ad mul-double 23x
ae div-double 23x
af rem-double 23x
b0 add-int/2addr 12x
b1 sub-int/2addr 12x
b2 mul-int/2addr 12x
b3 div-int/2addr 12x
b4 rem-int/2addr 12x
b5 and-int/2addr 12x
b6 or-int/2addr 12x
b7 xor-int/2addr 12x
b8 shl-int/2addr 12x
b9 shr-int/2addr 12x
ba ushr-int/2addr 12x
bb add-long/2addr 12x
bc sub-long/2addr 12x
bd mul-long/2addr 12x
be div-long/2addr 12x
bf rem-long/2addr 12x
c0 and-long/2addr 12x
c1 or-long/2addr 12x
c2 xor-long/2addr 12x
c3 shl-long/2addr 12x
c4 shr-long/2addr 12x
c5 ushr-long/2addr 12x
c6 add-float/2addr 12x
c7 sub-float/2addr 12x
c8 mul-float/2addr 12x
c9 div-float/2addr 12x
ca rem-float/2addr 12x
cb add-double/2addr 12x
cc sub-double/2addr 12x
cd mul-double/2addr 12x
ce div-double/2addr 12x
cf rem-double/2addr 12x
d0 add-int/lit16 22s
d1 rsub-int 22s
d2 mul-int/lit16 22s
d3 div-int/lit16 22s
d4 rem-int/lit16 22s
d5 and-int/lit16 22s
d6 or-int/lit16 22s
d7 xor-int/lit16 22s
d8 add-int/lit8 22b
d9 rsub-int/lit8 22b
da mul-int/lit8 22b
db div-int/lit8 22b
dc rem-int/lit8 22b
dd and-int/lit8 22b
de or-int/lit8 22b
df xor-int/lit8 22b
e0 shl-int/lit8 22b
e1 shr-int/lit8 22b
e2 ushr-int/lit8 22b
fa invoke-polymorphic 45cc method+proto
fb invoke-polymorphic/range 4rcc method+proto
fc invoke-custom 35c call_site
fd invoke-custom/range 3rc call_site
fe const-method-handle 21c method_handle
ff const-method-type 21c proto
"""

OPC = {}
NAME2OP = {}
for _l in _T.strip().splitlines():
    _p = _l.split()
    OPC[int(_p[0], 16)] = (_p[1], _p[2], _p[3] if len(_p) > 3 else None)
    NAME2OP[_p[1]] = int(_p[0], 16)
UNUSED = set(range(256)) - set(OPC)
assert UNUSED == set(range(0x3e, 0x44)) | {0x73, 0x79, 0x7a} | set(range(0xe3, 0xfa)), sorted(UNUSED)

# instructions whose 21h literal is a 64-bit value (shifted by 48)
WIDE_HIGH16 = {0x19}


def units(fmt):
    return int(fmt[0])


class Invalid(Exception):
    pass


def s(v, bits):
    v &= (1 << bits) - 1
    return v - (1 << bits) if v >> (bits - 1) else v


class Ins:
    __slots__ = ("op", "name", "fmt", "kind", "length", "regs", "lit", "branch", "ref", "ref2", "raw", "strict_ok")

    def __init__(self, **kw):
        for k in self.__slots__:
            setattr(self, k, kw.get(k))

    def __repr__(self):
        return "Ins(%s %s regs=%r lit=%r branch=%r ref=%r ref2=%r)" % (
            self.name, self.fmt, self.regs, self.lit, self.branch, self.ref, self.ref2)


def decode(buf, off=0):
    """Reference decoder.  `strict_ok` is False when reserved bits are non-zero / 35c count > 5 (spec-invalid but decodable)."""
    if off + 2 > len(buf):
        raise Invalid("truncated")
    u0 = buf[off] | (buf[off + 1] << 8)
    op = u0 & 0xff
    if op not in OPC:
        raise Invalid("unused opcode %02x" % op)
    name, fmt, kind = OPC[op]
    n = units(fmt)
    if off + 2 * n > len(buf):
        raise Invalid("truncated")
    u = struct.unpack_from("<%dH" % n, buf, off)
    hi = u0 >> 8
    A4, B4 = hi & 0xf, hi >> 4
    i = Ins(op=op, name=name, fmt=fmt, kind=kind, length=2 * n, regs=[], raw=bytes(buf[off:off + 2 * n]), strict_ok=True)
    if fmt == "10x":
        i.strict_ok = hi == 0
    elif fmt == "12x":
        i.regs = [A4, B4]
    elif fmt == "11n":
        i.regs = [A4]; i.lit = s(B4, 4)
    elif fmt == "11x":
        i.regs = [hi]
    elif fmt == "10t":
        i.branch = s(hi, 8)
    elif fmt == "20t":
        i.branch = s(u[1], 16); i.strict_ok = hi == 0
    elif fmt == "22x":
        i.regs = [hi, u[1]]
    elif fmt == "21t":
        i.regs = [hi]; i.branch = s(u[1], 16)
    elif fmt == "21s":
        i.regs = [hi]; i.lit = s(u[1], 16)
    elif fmt == "21h":
        i.regs = [hi]
        i.lit = s(u[1], 16) << (48 if op in WIDE_HIGH16 else 16)
    elif fmt == "21c":
        i.regs = [hi]; i.ref = u[1]
    elif fmt == "23x":
        i.regs = [hi, u[1] & 0xff, u[1] >> 8]
    elif fmt == "22b":
        i.regs = [hi, u[1] & 0xff]; i.lit = s(u[1] >> 8, 8)
    elif fmt == "22t":
        i.regs = [A4, B4]; i.branch = s(u[1], 16)
    elif fmt == "22s":
        i.regs = [A4, B4]; i.lit = s(u[1], 16)
    elif fmt == "22c":
        i.regs = [A4, B4]; i.ref = u[1]
    elif fmt == "32x":
        i.regs = [u[1], u[2]]; i.strict_ok = hi == 0
    elif fmt == "30t":
        i.branch = s(u[1] | (u[2] << 16), 32); i.strict_ok = hi == 0
    elif fmt == "31t":
        i.regs = [hi]; i.branch = s(u[1] | (u[2] << 16), 32)
    elif fmt == "31i":
        i.regs = [hi]; i.lit = s(u[1] | (u[2] << 16), 32)
    elif fmt == "31c":
        i.regs = [hi]; i.ref = u[1] | (u[2] << 16)
    elif fmt in ("35c", "45cc"):
        cnt, G = B4, A4
        five = [u[2] & 0xf, (u[2] >> 4) & 0xf, (u[2] >> 8) & 0xf, (u[2] >> 12) & 0xf, G]
        i.ref = u[1]
        i.strict_ok = cnt <= 5
        i.regs = five[:min(cnt, 5)]
        i.lit = cnt          # register count A as encoded
        if fmt == "45cc":
            i.ref2 = u[3]
            i.strict_ok = 1 <= cnt <= 5      # the 45cc format table has no [A=0] form (the receiver is an argument)
    elif fmt in ("3rc", "4rcc"):
        i.ref = u[1]
        i.regs = list(range(u[2], u[2] + hi))
        i.lit = hi
        if fmt == "4rcc":
            i.ref2 = u[3]
    elif fmt == "51l":
        i.regs = [hi]; i.lit = s(u[1] | (u[2] << 16) | (u[3] << 32) | (u[4] << 48), 64)
    else:
        raise AssertionError(fmt)
    return i


# ----------------------------------------------------------------------------- assembler
def _u16(*w):
    return struct.pack("<%dH" % len(w), *[x & 0xffff for x in w])


def enc(name, *a):
    """Assemble one instruction.  Argument order by format:
    10x ()            12x (A,B)          11n (A,lit)      11x (A)        10t/20t/30t (off)
    22x (A,B)         21t (A,off)        21s (A,lit)      21h (A,BBBB raw 16-bit)  21c (A,idx)
    23x (A,B,C)       22b (A,B,lit)      22t (A,B,off)    22s (A,B,lit)  22c (A,B,idx)
    32x (A,B)         31t (A,off)        31i (A,lit)      31c (A,idx)    51l (A,lit64)
    35c (idx,[regs])  3rc (idx,first,count)   45cc (idx,[regs],proto)    4rcc (idx,first,count,proto)
    """
    op = NAME2OP[name] if isinstance(name, str) else name
    fmt = OPC[op][1]
    if fmt == "10x":
        return _u16(op)
    if fmt in ("12x", "11n"):
        return _u16(op | ((a[0] & 0xf) << 8) | ((a[1] & 0xf) << 12))
    if fmt in ("11x", "10t"):
        return _u16(op | ((a[0] & 0xff) << 8))
    if fmt == "20t":
        return _u16(op, a[0])
    if fmt in ("22x", "21t", "21s", "21h", "21c"):
        return _u16(op | ((a[0] & 0xff) << 8), a[1])
    if fmt in ("23x", "22b"):
        return _u16(op | ((a[0] & 0xff) << 8), (a[1] & 0xff) | ((a[2] & 0xff) << 8))
    if fmt in ("22t", "22s", "22c"):
        return _u16(op | ((a[0] & 0xf) << 8) | ((a[1] & 0xf) << 12), a[2])
    if fmt == "32x":
        return _u16(op, a[0], a[1])
    if fmt == "30t":
        return _u16(op, a[0], a[0] >> 16)
    if fmt in ("31t", "31i", "31c"):
        return _u16(op | ((a[0] & 0xff) << 8), a[1], a[1] >> 16)
    if fmt in ("35c", "45cc"):
        idx, regs = a[0], list(a[1])
        r = regs + [0] * (5 - len(regs))
        w = _u16(op | ((r[4] & 0xf) << 8) | (len(regs) << 12), idx,
                 r[0] | (r[1] << 4) | (r[2] << 8) | (r[3] << 12))
        return w + (_u16(a[2]) if fmt == "45cc" else b"")
    if fmt in ("3rc", "4rcc"):
        w = _u16(op | ((a[2] & 0xff) << 8), a[0], a[1])
        return w + (_u16(a[3]) if fmt == "4rcc" else b"")
    if fmt == "51l":
        v = a[1] & 0xffffffffffffffff
        return _u16(op | ((a[0] & 0xff) << 8), v, v >> 16, v >> 32, v >> 48)
    raise AssertionError(fmt)


def packed_switch_payload(first_key, targets):
    return struct.pack("<HHi", 0x0100, len(targets), first_key) + b"".join(struct.pack("<i", t) for t in targets)


def sparse_switch_payload(keys, targets):
    assert len(keys) == len(targets)
    return (struct.pack("<HH", 0x0200, len(keys)) + b"".join(struct.pack("<i", k) for k in keys)
            + b"".join(struct.pack("<i", t) for t in targets))


def fill_array_payload(width, data):
    """data: bytes of length size*width"""
    size = len(data) // width
    pad = b"\x00" if len(data) % 2 else b""
    return struct.pack("<HHI", 0x0300, width, size) + data + pad


def payload_units(buf, off):
    """Length in code units of the payload pseudo-instruction at byte offset off (reference)."""
    ident, = struct.unpack_from("<H", buf, off)
    if ident == 0x0100:
        size, = struct.unpack_from("<H", buf, off + 2)
        return size * 2 + 4
    if ident == 0x0200:
        size, = struct.unpack_from("<H", buf, off + 2)
        return size * 4 + 2
    if ident == 0x0300:
        width, size = struct.unpack_from("<HI", buf, off + 2)
        return (size * width + 1) // 2 + 4
    raise Invalid("not a payload")


class Label:
    def __init__(self, name=None):
        self.name = name
        self.off = None       # byte offset once laid out

    def __repr__(self):
        return "L(%s@%r)" % (self.name, self.off)


class Asm:
    """Label-based assembler.  Items are appended in order; branch operands may be Label objects
    (converted to code-unit offsets relative to the branching instruction).  Payloads record the
    switch instruction they belong to because switch targets are relative to that instruction."""

    def __init__(self):
        self.items = []      # ("ins", name, args, label_of_this_ins) | ("label", L) | ("raw", bytes) | ("packed", base, first, [L]) ...
        self.layout = None

    def label(self, L=None):
        L = L or Label()
        self.items.append(("label", L))
        return L

    def ins(self, name, *args):
        self.items.append(("ins", name, args))
        return self

    def raw(self, b):
        self.items.append(("raw", bytes(b)))
        return self

    def align4(self):
        self.items.append(("align",))
        return self

    def packed(self, base, first_key, targets):
        self.items.append(("packed", base, first_key, list(targets)))
        return self

    def sparse(self, base, keys, targets):
        self.items.append(("sparse", base, list(keys), list(targets)))
        return self

    def array(self, width, data):
        self.items.append(("array", width, bytes(data)))
        return self

    def _size(self, it, off):
        k = it[0]
        if k == "ins":
            return 2 * units(OPC[NAME2OP[it[1]]][1])
        if k == "raw":
            return len(it[1])
        if k == "align":
            return 2 if off % 4 else 0
        if k == "packed":
            return 8 + 4 * len(it[3])
        if k == "sparse":
            return 4 + 8 * len(it[2])
        if k == "array":
            return 8 + len(it[2]) + (len(it[2]) % 2)
        return 0

    def assemble(self):
        """-> (code bytes, listing) ; listing = [(byte_off, kind, name, bytes)] for every real item incl. pads/payloads."""
        off = 0
        offs = []
        for it in self.items:
            offs.append(off)
            if it[0] == "label":
                it[1].off = off
            off += self._size(it, off)
        out = bytearray()
        listing = []
        for it, o in zip(self.items, offs):
            k = it[0]
            if k == "label":
                continue
            if k == "ins":
                args = []
                for x in it[2]:
                    if isinstance(x, Label):
                        assert x.off is not None, "unplaced label %r" % x
                        args.append((x.off - o) // 2)
                    else:
                        args.append(x)
                b = enc(it[1], *args)
                listing.append((o, "ins", it[1], b))
            elif k == "raw":
                b = it[1]
                listing.append((o, "raw", "raw", b))
            elif k == "align":
                b = b"\x00\x00" if o % 4 else b""
                if b:
                    listing.append((o, "ins", "nop", b))
            elif k == "packed":
                base = it[1].off
                b = packed_switch_payload(it[2], [(t.off - base) // 2 for t in it[3]])
                listing.append((o, "payload", "packed-switch-payload", b))
            elif k == "sparse":
                base = it[1].off
                b = sparse_switch_payload(it[2], [(t.off - base) // 2 for t in it[3]])
                listing.append((o, "payload", "sparse-switch-payload", b))
            elif k == "array":
                b = fill_array_payload(it[1], it[2])
                listing.append((o, "payload", "fill-array-data-payload", b))
            assert len(out) == o
            out += b
        return bytes(out), listing
