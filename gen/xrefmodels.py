"""Program models for the cross-reference properties C13-C16 (engine E2 / E3 generators).

A *model* is plain data from which (a) gen/dexgen.py writes the DEX bytes and (b) ref/xref.py derives the expected
cross-reference relations -- nothing in here imports androguard.

    Model(dexes=[[Cls...], ...])          one inner list per DEX file, in add order
    Cls(name, ifields, sfields, methods, declared)      fields: (name, type); declared: method ids present in the id table only
    Meth(name, ret, params, static, body)               body: list of items or None (no code)
    item = (mnemonic, target)             target by the mnemonic's reference kind (gen/dalvik.OPC):
                                          method -> (class, name, ret, params)   field -> (class, name, type)
                                          string -> str                          type  -> descriptor

`layout(body)` gives the byte offset of every item (the assembler knows every offset); `to_bytes(model)` the DEX files.

Two families are generated:
  * `xm3(seq)`           classes A (uses), B (internal target), externals, D in a second DEX; body of A.m = seq
                         over ALPHABET (C13/C14/C15);
  * `interaction(n, M)`  n classes with an interaction matrix, split by an ordered set partition (C16).
"""
import itertools

from gen import dalvik as D
from gen import dexgen as G


# ------------------------------------------------------------------------------------------------ model
class Meth:
    def __init__(self, name, ret="V", params=(), static=False, body=None):
        self.name, self.ret, self.params, self.static, self.body = name, ret, tuple(params), static, body

    def desc(self):
        return "(" + "".join(self.params) + ")" + self.ret


class Cls:
    def __init__(self, name, ifields=(), sfields=(), methods=(), declared=()):
        self.name, self.ifields, self.sfields = name, list(ifields), list(sfields)
        self.methods, self.declared = list(methods), list(declared)


class Model:
    def __init__(self, dexes):
        self.dexes = [list(d) for d in dexes]

    def classes(self):
        for di, d in enumerate(self.dexes):
            for c in d:
                yield di, c


def mdesc(ret, params):
    return "(" + "".join(params) + ")" + ret


# ------------------------------------------------------------------------------------------------ assembling
PAYLOAD = "payload"          # pseudo item ("payload", "fill-array-data" | "packed-switch"): the 31t instruction, a goto over
PAYLOAD_BYTES = 12           # its payload, and the payload itself IN THE MIDDLE of the method (4-byte aligned by a leading nop)


PAD = "pad"                  # pseudo item ("pad", n): n nop code units (pushes the following references to large offsets)


def kind_of(op):
    return None if op in (PAYLOAD, PAD) else D.OPC[D.NAME2OP[op]][2]


def item_len(item, off=0):
    if item[0] == PAD:
        return 2 * item[1]
    if item[0] == PAYLOAD:
        return (2 if off % 4 else 0) + 6 + 2 + PAYLOAD_BYTES
    return 2 * D.units(D.OPC[D.NAME2OP[item[0]]][1])


def layout(body):
    """-> [(byte offset, item)] of a body (return-void is appended by emit and has no item)."""
    out, off = [], 0
    for it in body:
        out.append((off, it))
        off += item_len(it, off)
    return out


def _payload_item(which, off):
    b = D.enc("nop") if off % 4 else b""
    if which == "fill-array-data":
        pl = D.fill_array_payload(1, b"\x01\x02\x03\x04")
        b += D.enc("fill-array-data", 0, 4)                    # payload 4 units ahead (3 + goto)
    else:
        pl = D.packed_switch_payload(0, [4 + PAYLOAD_BYTES // 2])     # the only case: continue behind the payload
        b += D.enc("packed-switch", 0, 4)
    assert len(pl) == PAYLOAD_BYTES
    return b + D.enc("goto", 1 + PAYLOAD_BYTES // 2) + pl


def _nargs(params):
    return min(5, 1 + sum(2 if p in ("J", "D") else 1 for p in params))


def emit(body):
    """-> callable(ix) for dexgen.Code.insns: the items in order, then return-void."""
    def f(ix):
        b = bytearray()
        for op, tgt in body:
            if op == PAD:
                b += D.enc("nop") * tgt
                continue
            if op == PAYLOAD:
                b += _payload_item(tgt, len(b))
                continue
            fmt, kind = D.OPC[D.NAME2OP[op]][1], D.OPC[D.NAME2OP[op]][2]
            if kind == "method":
                idx = ix.method(tgt[0], tgt[1], tgt[2], tgt[3])
            elif kind == "field":
                idx = ix.field(*tgt)
            elif kind == "string":
                idx = ix.string(tgt)
            elif kind == "type":
                idx = ix.type(tgt)
            else:
                raise AssertionError(op)
            if fmt == "35c":
                b += D.enc(op, idx, list(range(_nargs(tgt[3]) if kind == "method" else 1)))
            elif fmt == "3rc":
                b += D.enc(op, idx, 0, _nargs(tgt[3]) if kind == "method" else 1)
            elif fmt == "22c":
                b += D.enc(op, 0, 1, idx)
            elif fmt in ("21c", "31c"):
                b += D.enc(op, 0, idx)
            else:
                raise AssertionError((op, fmt))
        b += D.enc("return-void")
        return bytes(b)
    return f


def to_dexgen(model):
    """-> [gen.dexgen.Dex] one per DEX file of the model."""
    out = []
    for d in model.dexes:
        classes, extra = [], []
        for c in d:
            dm, vm = [], []
            for m in c.methods:
                code = None
                acc = G.ACC_PUBLIC | (G.ACC_STATIC if m.static else 0)
                if m.body is not None:
                    code = G.Code(registers=8, ins=0 if m.static else 1, outs=5, insns=emit(m.body))
                else:
                    acc |= G.ACC_ABSTRACT
                (dm if m.static else vm).append(G.Method(m.name, m.ret, m.params, acc, code))
            classes.append(G.Class(c.name,
                                   sfields=[G.Field(n, t, G.ACC_PUBLIC | G.ACC_STATIC) for n, t in c.sfields],
                                   ifields=[G.Field(n, t) for n, t in c.ifields], dmethods=dm, vmethods=vm))
            extra += [(c.name, n, r, tuple(p)) for n, r, p in c.declared]
        out.append(G.Dex(classes, extra_methods=extra))
    return out


def to_bytes(model):
    return [G.build(d) for d in to_dexgen(model)]


# ------------------------------------------------------------------------------------------------ C13/C14/C15
A, B, E, DD = "LA;", "LB;", "Lext/E;", "LD;"
OBJ = "Ljava/lang/Object;"
METHODS = {
    "B.t": (B, "t", "V", ("I", "J")),                  # defined in B, two-parameter descriptor
    "B.u": (B, "u", "I", ()),                          # declared in the method-id table, not defined in B
    "A.m": (A, "m", "V", ()),                          # placeholder: the method under construction itself
    "A.n": (A, "n", "V", ()),                          # another method of A (extended singles only)
    "E.x": (E, "x", "V", ("I",)),                      # external class
    "E.x2": (E, "x", "V", ()),                         # external overload: same class and name, other descriptor
    "OA.clone": ("[" + OBJ, "clone", OBJ, ()),         # array receiver, element class external
    "BA.clone": ("[" + B, "clone", OBJ, ()),           # array receiver whose element class DEFINES clone()
    "OAA.clone": ("[[" + OBJ, "clone", OBJ, ()),       # array-of-arrays receiver (two dimensions)
}
FIELDS = {
    "A.f": (A, "f", "I"),
    "A.f2": (A, "f", "Ljava/lang/String;"),            # same name as A.f, other type (legal in DEX)
    "B.g": (B, "g", "I"),
    "B.g2": (B, "g", "J"),                             # same name as B.g, other type
    "B.s": (B, "s", "Ljava/lang/String;"),             # static
    "E.h": (E, "h", "I"),                              # external
    "D.k": (DD, "k", "I"),                             # defined in the SECOND DEX of the analysis
}
INVOKE_OPS = ["invoke-virtual", "invoke-super", "invoke-direct", "invoke-static", "invoke-interface",
              "invoke-virtual/range", "invoke-super/range", "invoke-direct/range", "invoke-static/range",
              "invoke-interface/range"]
FIELD_OPS_ALL = [p + s for p in ("iget", "iput", "sget", "sput")
                 for s in ("", "-wide", "-object", "-boolean", "-byte", "-char", "-short")]
# one opcode per width family, every access form twice
FIELD_OPS = ["iget", "iput-wide", "sget-object", "sput-boolean", "iget-byte", "iput-char", "sget-short", "sput"]
STRINGS = ["s1", "s2", "LB;", ""]                      # "LB;" shares its pool entry with a type descriptor; "" is falsy
STRING_OPS = ["const-string", "const-string/jumbo"]
# type operands: {internal B, own class A, external E} x array dimension {0, 1, 2, 3}, and arrays of primitives
TYPES = [B, A, E, "[" + B, "[I"]                       # kept for documentation of the original alphabet
CLASS_OPERANDS = [B, A, E]
CONST_CLASS_TYPES = ["[" * d + c for d in (0, 1, 2, 3) for c in CLASS_OPERANDS] + ["[I", "[[I"]
NEW_INSTANCE_TYPES = ["[" * d + c for d in (0, 1, 2) for c in CLASS_OPERANDS] + ["[I"]
TYPE_OPS = ["new-instance", "const-class"]
MAX_DIM_TYPE = "[" * 255 + B                           # the deepest legal array type (extended singles only)
# type references that are NOT class-usage xrefs, in several array dimensions
NOISE = [("check-cast", B), ("instance-of", B), ("new-array", "[" + B), ("check-cast", "[[" + B), ("instance-of", "[[" + E),
         ("new-array", "[[" + B), ("filled-new-array", "[" + B)]

SEQ_METHOD_TARGETS = ["B.t", "B.u", "A.m", "E.x", "E.x2", "OA.clone", "BA.clone"]


def _alphabet(method_targets, field_ops):
    al = []
    for op in INVOKE_OPS:
        for t in method_targets:
            al.append((op, METHODS[t]))
    for op in field_ops:
        for t in FIELDS:
            al.append((op, FIELDS[t]))
    for op in STRING_OPS:
        for s in STRINGS:
            al.append((op, s))
    al += [("new-instance", t) for t in NEW_INSTANCE_TYPES] + [("const-class", t) for t in CONST_CLASS_TYPES]
    if "OAA.clone" not in method_targets:
        al += [("invoke-virtual", METHODS["OAA.clone"]), ("invoke-virtual/range", METHODS["OAA.clone"])]
    else:
        al += [("const-class", MAX_DIM_TYPE), ("new-instance", "[[[" + B)]
    return al + list(NOISE) + [(PAYLOAD, "fill-array-data"), (PAYLOAD, "packed-switch")]


# instance-of / new-array are 22c with a type index: emit() handles 22c generically (A=0, B=1, idx)
ALPHABET = _alphabet(SEQ_METHOD_TARGETS, FIELD_OPS)                  # sequences of length <= 2 / <= 3
ALPHABET_X = _alphabet(list(METHODS), FIELD_OPS_ALL)                  # extended: singles only (every field opcode, A.n)
ALPHABET_X = [it for it in ALPHABET_X if it not in set(ALPHABET)]


def item_of(code):
    """code: int index into ALPHABET, or -(k+1) into ALPHABET_X."""
    return ALPHABET[code] if code >= 0 else ALPHABET_X[-code - 1]


FAR_UNITS = 0x8000           # pad of the 'far' representatives: the reference sits at byte offset 0x10000 (> 16 bit)
FAR_ITEMS = [("invoke-virtual", "m:B.t"), ("invoke-static/range", "m:E.x"), ("invoke-super", "m:A.m"), ("iget", "f:A.f"),
             ("sput-boolean", "f:B.s"), ("iput-wide", "f:D.k"), ("const-string", "s:s1"), ("const-string/jumbo", "s:"),
             ("new-instance", "t:" + "LB;"), ("const-class", "t:" + "Lext/E;")]


def far_codes():
    """Alphabet codes of the representatives that are also generated behind a 0x8000-unit pad."""
    out = []
    for op, t in FAR_ITEMS:
        tgt = {"m": METHODS, "f": FIELDS}.get(t[0], {}).get(t[2:], t[2:])
        out.append(ALPHABET.index((op, tgt)))
    return out


def gen_name(k, variant=0):
    """Name of the k-th generated method of A: 'm<k>' (sorted BEFORE the fixed A.n) or, variant bit 1, 'z<k>' (AFTER A.n)."""
    return ("z%d" if variant & 2 else "m%d") % k


def xm3(seqs, second_first=False, variant=0, far=False):
    """The three-class model: DEX0 = {A, B}, DEX1 = {D}.  seqs: list of K sequences of item codes (see item_of); sequence k is
    the body of A.m<k> (K = 1: one program per model; K > 1: a batch, one DEX holding K programs).  The item target
    'A.m' means the method itself.  A.n and D.r have fixed bodies so that targets are shared across methods and DEX files."""
    # variant bit 0: class_defs order B, A instead of A, B; bit 1: generated methods named z<k> (processed after A.n);
    # far: every body is preceded by FAR_UNITS nops
    ms = []
    for k, seq in enumerate(seqs):
        me = (A, gen_name(k, variant), "V", ())
        ms.append(Meth(me[1], body=([(PAD, FAR_UNITS)] if far else []) +
                       [(op, me if tgt == METHODS["A.m"] else tgt) for op, tgt in map(item_of, seq)]))
    n_body = [("invoke-static", METHODS["E.x"]), ("invoke-virtual", METHODS["B.u"]), ("invoke-direct/range", METHODS["B.t"]),
              ("sget-object", FIELDS["B.s"]), ("iput", FIELDS["A.f"]), ("const-string", "s2"), ("const-class", E),
              ("invoke-virtual", METHODS["OA.clone"]), ("const-string/jumbo", "")]
    r_body = [("iget", FIELDS["A.f"]), ("sput", FIELDS["D.k"]), ("invoke-static/range", METHODS["E.x"]),
              ("invoke-virtual", METHODS["B.t"]), ("const-string/jumbo", "s1"), ("new-instance", B)]
    # B references itself (B.t) before D references B, and B references A after A may have referenced itself (A.m<k>)
    a = Cls(A, ifields=[("f", "I"), ("f", "Ljava/lang/String;")], methods=ms + [Meth("n", body=n_body)])
    b = Cls(B, ifields=[("g", "I"), ("g", "J")], sfields=[("s", "Ljava/lang/String;")],
            methods=[Meth("t", "V", ("I", "J"), body=[("new-instance", B)]),
                     Meth("clone", OBJ, (), body=[("const-class", A), ("iget-wide", FIELDS["B.g2"]), ("iput", FIELDS["B.g"])])],
            declared=[("u", "I", ())])
    d = Cls(DD, ifields=[("k", "I")], methods=[Meth("r", body=r_body)])
    ab = [b, a] if variant & 1 else [a, b]
    return Model([[d], ab] if second_first else [ab, [d]])


def decoy(which="xm3"):
    """A fixed OTHER program that uses the SAME class names (which='xm3': LA; LB; LD;  which='c16': LC0;..LC3;) with other members,
    other bodies and other strings: analysed (results ignored) before every judged analysis so that state carried from one
    Analysis / DEX to the next in the same process shows up -- and reproduces in a fresh process."""
    def cls(name, other):
        body = [("const-string", "s1"), ("const-string", "k0"), ("new-instance", name), ("new-instance", other),
                ("sget", (other, "s", "J")), ("iget-wide", (name, "f", "J")), ("invoke-static", (other, "t", "V", ("I", "J"))),
                ("invoke-virtual", (E, "x", "V", ("I",))), ("invoke-virtual", (other, "m0", "V", ())), ("const-string/jumbo", "")]
        return Cls(name, ifields=[("f", "J"), ("g", "Ljava/lang/String;"), ("k", "J")], sfields=[("s", "J")],
                   methods=[Meth("m0", body=body), Meth("n", "I", ("I",), body=None), Meth("r", "I", (), body=None),
                            Meth("t", "V", ("I", "J"), static=True, body=[("const-class", other)])])
    names = [A, B, DD] if which == "xm3" else [cname(i) for i in range(4)]
    return Model([[cls(n, names[(i + 1) % len(names)]) for i, n in enumerate(names)]])


# ------------------------------------------------------------------------------------------------ C16
NONE, CALL, FIELD, CLASSUSE, STRING, ALL = 0, 1, 2, 3, 4, 5
INTERACTIONS = ["none", "call", "field", "new-instance+const-class", "shared-const-string", "all"]


def cname(i):
    return "LC%d;" % i


def interaction(n, matrix, blocks):
    """n classes C0..Cn-1; matrix[i][j] (i != j) in 0..5 says what Ci.m does with Cj; blocks: ordered set partition of
    range(n) = the DEX files in add order; the order INSIDE a block is the class_defs order of that DEX file."""
    classes = []
    for i in range(n):
        body = [("const-string", "k%d" % i), ("iget", (cname(i), "f", "I")), ("invoke-static", (E, "x", "V", ("I",))),
                ("new-instance", cname(i))]                     # a reference of the class to itself
        for j in range(n):
            if i == j:
                continue
            v = matrix[i][j]
            if v in (CALL, ALL):
                body += [("invoke-virtual", (cname(j), "m", "V", ())), ("invoke-static/range", (cname(j), "t", "V", ("I", "J")))]
            if v in (FIELD, ALL):
                body += [("iget", (cname(j), "f", "I")), ("sput", (cname(j), "s", "I"))]
            if v in (CLASSUSE, ALL):
                body += [("new-instance", cname(j)), ("const-class", cname(j))]
            if v in (STRING, ALL):
                body += [("const-string/jumbo", "k%d" % j)]
        classes.append(Cls(cname(i), ifields=[("f", "I")], sfields=[("s", "I")],
                           methods=[Meth("m", body=body), Meth("t", "V", ("I", "J"), static=True, body=[])]))
    return Model([[classes[i] for i in blk] for blk in blocks])


def ordered_partitions(n):
    """All ordered set partitions of range(n) (blocks internally sorted): 1, 3, 13, 75 for n = 1..4."""
    def rec(rest):
        if not rest:
            yield []
            return
        for r in range(1, len(rest) + 1):
            for first in itertools.combinations(rest, r):
                left = [x for x in rest if x not in first]
                for tail in rec(left):
                    yield [list(first)] + tail
    return sorted(rec(list(range(n))), key=lambda p: (len(p), p))


def ordered_partitions_with_class_order(n):
    """Every ordered set partition with every class_defs order inside each block: 24 for n = 3, 192 for n = 4
    (blocks in index order first, so the first element is the single DEX in canonical order)."""
    out = []
    for p in ordered_partitions(n):
        for perm in itertools.product(*[itertools.permutations(b) for b in p]):
            out.append([list(b) for b in perm])
    return out


def matrices(n, values):
    """All n x n matrices (diagonal 0) with off-diagonal entries from `values`, as tuples of tuples."""
    pairs = [(i, j) for i in range(n) for j in range(n) if i != j]
    for vals in itertools.product(values, repeat=len(pairs)):
        m = [[0] * n for _ in range(n)]
        for (i, j), v in zip(pairs, vals):
            m[i][j] = v
        yield tuple(tuple(r) for r in m)
