"""Independent APK container writer: zip archives, APK Signing Blocks and v1 (JAR) signatures.

Nothing in here uses androguard or `apkInspector` (the zip reader androguard is built on):

* zip archives are written by the standard library `zipfile` (fixed timestamps, so the bytes are reproducible);
* the APK Signing Block (https://source.android.com/docs/security/features/apksigning/v2 , /v3 , /v3-1) is
  serialised with `struct` from a plain model and spliced in front of the central directory; the End Of Central
  Directory record is located by this module's own backward scan and its central-directory offset is patched;
* v1 signing follows the JAR specification + apksig's V1SchemeSigner: META-INF/MANIFEST.MF, META-INF/<n>.SF and a
  detached PKCS#7 SignedData META-INF/<n>.{RSA,EC,DSA} built with `asn1crypto` (structure) and `cryptography`
  (signature value), with or without signed attributes.

Models (plain data, JSON-able -> a model is its own replay witness)

    signing block   pairs  = [(id, value bytes), ...]
    v2 value        [signer, ...]      signer = {"digests": [(alg, bytes)], "certs": [bytes], "attrs": bytes (raw, already a
                                                  sequence of length-prefixed attributes or b""), "sigs": [(alg, bytes)],
                                                  "pubkey": bytes}
    v3 / v3.1 value the same + "min"/"max" (signed data) and "smin"/"smax" (signer) SDK bounds

Fixed throw-away test keys live in gen/keys/*.pem (generated ONCE by `python -m gen.apkgen genkeys`; key generation is
not reproducible so they are committed).
"""
import base64
import hashlib
import io
import os
import struct
import zipfile

KEYDIR = os.path.join(os.path.dirname(os.path.abspath(__file__)), "keys")

ID_V2 = 0x7109871A
ID_V3 = 0xF05368C0
ID_V31 = 0x1B93AD61
ID_UNKNOWN = 0x42726577          # "verity padding" id used by apksigner; any id that is not v2/v3/v3.1 would do
SIG_MAGIC = b"APK Sig Block 42"
EOCD_MAGIC = b"PK\x05\x06"
CD_MAGIC = b"PK\x01\x02"


# =============================================================================================== zip layer
def make_zip(entries, comment=b"", cd_order=None):
    """entries: [(name, data, 'stored'|'deflated')] -> bytes.  stdlib zipfile, fixed timestamp, no extra fields.
    cd_order: permutation of range(len(entries)) = order of the CENTRAL DIRECTORY records (default: the local-entry order)."""
    bio = io.BytesIO()
    with zipfile.ZipFile(bio, "w") as z:
        for name, data, method in entries:
            zi = zipfile.ZipInfo(name, date_time=(2009, 1, 1, 0, 0, 0))
            zi.compress_type = zipfile.ZIP_DEFLATED if method == "deflated" else zipfile.ZIP_STORED
            zi.external_attr = 0o644 << 16
            zi.create_system = 3
            z.writestr(zi, data)
        if comment:
            z.comment = comment
        if cd_order is not None:
            assert sorted(cd_order) == list(range(len(entries)))
            z.filelist[:] = [z.filelist[i] for i in cd_order]
    return bio.getvalue()


def find_eocd(raw):
    """Offset of the End Of Central Directory record: the last 'PK\\5\\6' whose comment length reaches exactly EOF."""
    i = len(raw) - 22
    while i >= 0:
        if raw[i:i + 4] == EOCD_MAGIC:
            (clen,) = struct.unpack_from("<H", raw, i + 20)
            if i + 22 + clen == len(raw):
                return i
        i -= 1
    raise ValueError("no EOCD")


def central_directory(raw):
    """-> (cd_offset, cd_size, eocd_offset)"""
    e = find_eocd(raw)
    cd_size, cd_off = struct.unpack_from("<II", raw, e + 12)
    if raw[cd_off:cd_off + 4] != CD_MAGIC and cd_size:
        raise ValueError("central directory not at recorded offset")
    return cd_off, cd_size, e


# =============================================================================================== APK Signing Block
def u32(n):
    return struct.pack("<I", n & 0xFFFFFFFF)


def lp(b):
    """uint32 length-prefixed"""
    return u32(len(b)) + bytes(b)


def seq(items):
    """length-prefixed sequence of length-prefixed elements"""
    return lp(b"".join(lp(x) for x in items))


def algo_pairs(pairs):
    """digests / signatures: sequence of length-prefixed (uint32 algorithm id, length-prefixed bytes) elements.  A pair may carry
    a third item: slack bytes stored after the fields but inside the element's own length prefix (readers must skip them)."""
    return seq(u32(p[0]) + lp(p[1]) + (bytes(p[2]) if len(p) > 2 else b"") for p in pairs)


def attrs_blob(attrs):
    """[(id, value bytes)] -> the raw additional-attributes bytes (without the outer length prefix)"""
    return b"".join(lp(u32(i) + bytes(v)) for i, v in attrs)


def v2_signer(s):
    """"digests_wire" / "sigs_wire" (pairs with slack), when present, are what is written; "digests" / "sigs" is what they mean"""
    s = dict(s, digests=s.get("digests_wire", s["digests"]), sigs=s.get("sigs_wire", s["sigs"]))
    signed = algo_pairs(s["digests"]) + seq(s["certs"]) + lp(s["attrs"])
    return lp(signed) + algo_pairs(s["sigs"]) + lp(s["pubkey"])


def v3_signer(s):
    s = dict(s, digests=s.get("digests_wire", s["digests"]), sigs=s.get("sigs_wire", s["sigs"]))
    signed = algo_pairs(s["digests"]) + seq(s["certs"]) + u32(s["min"]) + u32(s["max"]) + lp(s["attrs"])
    return lp(signed) + u32(s["smin"]) + u32(s["smax"]) + algo_pairs(s["sigs"]) + lp(s["pubkey"])


def v2_value(signers):
    return seq(v2_signer(s) for s in signers)


def v3_value(signers):
    return seq(v3_signer(s) for s in signers)


def signing_block(pairs):
    body = b"".join(struct.pack("<QI", len(v) + 4, i) + bytes(v) for i, v in pairs)
    size = len(body) + 8 + 16
    return struct.pack("<Q", size) + body + struct.pack("<Q", size) + SIG_MAGIC


def insert_signing_block(raw, pairs):
    """Splice an APK Signing Block in front of the central directory and patch the EOCD's central-directory offset."""
    cd_off, cd_size, e = central_directory(raw)
    blk = signing_block(pairs)
    out = bytearray(raw[:cd_off] + blk + raw[cd_off:])
    struct.pack_into("<I", out, e + len(blk) + 16, cd_off + len(blk))
    out = bytes(out)
    # self-check with the independent reader of the standard library
    with zipfile.ZipFile(io.BytesIO(out)) as z:
        assert z.testzip() is None
    return out


# =============================================================================================== keys
KEY_NAMES = ["rsa", "ec", "dsa", "rsa2", "ec2", "dsa2"]
_SUBJECT = {"rsa": "Verif RSA One", "ec": "Verif EC One", "dsa": "Verif DSA One",
            "rsa2": "Verif RSA Two", "ec2": "Verif EC Two", "dsa2": "Verif DSA Two"}
_SERIAL = {"rsa": 0x11A1B1C1D1, "ec": 0x22A2B2C2D2, "dsa": 0x33A3B3C3D3,
           "rsa2": 0x44A4B4C4D4, "ec2": 0x55A5B5C5D5, "dsa2": 0x66A6B6C6D6}
# second certificates for the SAME keys whose serial number has the top bit of its first octet set (DER needs a leading 00)
HI_SERIAL_CERTS = {"rsa9": ("rsa", 0xC8A1B1C1D1, "Verif RSA Nine"), "ec9": ("ec", 0xD9A2B2C2D2, "Verif EC Nine"),
                   "dsa9": ("dsa", 0xEAA3B3C3D3, "Verif DSA Nine")}
CERT_NAMES = KEY_NAMES + sorted(HI_SERIAL_CERTS)
_cache = {}


def genkeys():
    """Run ONCE: writes gen/keys/<name>.key.pem and <name>.cert.pem (self-signed, SHA-256, 2020..2050)."""
    import datetime
    from cryptography import x509
    from cryptography.hazmat.primitives import hashes, serialization
    from cryptography.hazmat.primitives.asymmetric import dsa, ec, rsa
    from cryptography.x509.oid import NameOID
    os.makedirs(KEYDIR, exist_ok=True)
    for n in KEY_NAMES:
        kp = os.path.join(KEYDIR, n + ".key.pem")
        if os.path.exists(kp):
            continue
        if n.startswith("rsa"):
            k = rsa.generate_private_key(public_exponent=65537, key_size=2048)
        elif n.startswith("ec"):
            k = ec.generate_private_key(ec.SECP256R1())
        else:
            k = dsa.generate_private_key(key_size=2048)
        name = x509.Name([x509.NameAttribute(NameOID.COUNTRY_NAME, "ZZ"),
                          x509.NameAttribute(NameOID.ORGANIZATION_NAME, "verif"),
                          x509.NameAttribute(NameOID.COMMON_NAME, _SUBJECT[n])])
        cert = (x509.CertificateBuilder().subject_name(name).issuer_name(name).public_key(k.public_key())
                .serial_number(_SERIAL[n])
                .not_valid_before(datetime.datetime(2020, 1, 1)).not_valid_after(datetime.datetime(2050, 1, 1))
                .sign(k, hashes.SHA256()))
        with open(kp, "wb") as f:
            f.write(k.private_bytes(serialization.Encoding.PEM, serialization.PrivateFormat.PKCS8,
                                    serialization.NoEncryption()))
        with open(os.path.join(KEYDIR, n + ".cert.pem"), "wb") as f:
            f.write(cert.public_bytes(serialization.Encoding.PEM))
    for n, (kn, serial, cn) in HI_SERIAL_CERTS.items():
        cp = os.path.join(KEYDIR, n + ".cert.pem")
        if os.path.exists(cp):
            continue
        k = key(kn)
        name = x509.Name([x509.NameAttribute(NameOID.COUNTRY_NAME, "ZZ"), x509.NameAttribute(NameOID.ORGANIZATION_NAME, "verif"),
                          x509.NameAttribute(NameOID.COMMON_NAME, cn)])
        cert = (x509.CertificateBuilder().subject_name(name).issuer_name(name).public_key(k.public_key()).serial_number(serial)
                .not_valid_before(datetime.datetime(2020, 1, 1)).not_valid_after(datetime.datetime(2050, 1, 1))
                .sign(k, hashes.SHA256()))
        with open(cp, "wb") as f:
            f.write(cert.public_bytes(serialization.Encoding.PEM))


def key(name):
    """-> private key object (cryptography); the high-serial certificate names map to the key they were issued for"""
    name = HI_SERIAL_CERTS.get(name, (name,))[0]
    if ("k", name) not in _cache:
        from cryptography.hazmat.primitives import serialization
        with open(os.path.join(KEYDIR, name + ".key.pem"), "rb") as f:
            _cache["k", name] = serialization.load_pem_private_key(f.read(), None)
    return _cache["k", name]


def cert_der(name):
    """-> DER bytes of the fixed self-signed certificate"""
    if ("c", name) not in _cache:
        with open(os.path.join(KEYDIR, name + ".cert.pem"), "rb") as f:
            pem = f.read()
        b64 = b"".join(l for l in pem.splitlines() if l and not l.startswith(b"-----"))
        _cache["c", name] = base64.b64decode(b64)
    return _cache["c", name]


def pubkey_der(name):
    """-> DER SubjectPublicKeyInfo of the fixed key"""
    from cryptography.hazmat.primitives import serialization
    return key(name).public_key().public_bytes(serialization.Encoding.DER,
                                               serialization.PublicFormat.SubjectPublicKeyInfo)


def key_kind(name):
    return name.rstrip("0123456789")


# =============================================================================================== v1 (JAR) signing
DIGESTS = {"sha1": ("SHA1", "SHA1"), "sha256": ("SHA-256", "SHA256")}      # hashlib name -> (JAR attribute prefix, cryptography class)


def _b64digest(alg, data):
    return base64.b64encode(hashlib.new(alg, data).digest()).decode("ascii")


def manifest_mf(entries, alg):
    """entries: [(name, data)] -> (bytes of MANIFEST.MF, {name: section bytes})"""
    main = "Manifest-Version: 1.0\r\nCreated-By: 1.0 (verif)\r\n\r\n".encode()
    sections = {}
    out = main
    for name, data in entries:
        s = ("Name: %s\r\n%s-Digest: %s\r\n\r\n" % (name, DIGESTS[alg][0], _b64digest(alg, data))).encode("utf-8")
        sections[name] = s
        out += s
    return out, sections


def signature_sf(manifest, sections, alg):
    pre = DIGESTS[alg][0]
    out = ("Signature-Version: 1.0\r\nCreated-By: 1.0 (verif)\r\n%s-Digest-Manifest: %s\r\n\r\n"
           % (pre, _b64digest(alg, manifest))).encode()
    for name, s in sections.items():
        out += ("Name: %s\r\n%s-Digest: %s\r\n\r\n" % (name, pre, _b64digest(alg, s))).encode("utf-8")
    return out


def raw_sign(keyname, alg, data):
    """Signature value over `data` with the fixed key (RSA: PKCS#1 v1.5 and ECDSA with RFC 6979: deterministic; DSA: DER (r,s),
    randomised - callers build a signed artefact once and enumerate faults on those fixed bytes)."""
    from cryptography.hazmat.primitives import hashes
    from cryptography.hazmat.primitives.asymmetric import ec, padding
    h = getattr(hashes, DIGESTS[alg][1])()
    k = key(keyname)
    kind = key_kind(keyname)
    if kind == "rsa":
        return k.sign(data, padding.PKCS1v15(), h)
    if kind == "ec":
        try:
            return k.sign(data, ec.ECDSA(h, deterministic_signing=True))       # RFC 6979 where the backend offers it
        except Exception:     # noqa
            return k.sign(data, ec.ECDSA(h))
    return k.sign(data, h)


_SIGALG = {("rsa", "sha1"): "rsassa_pkcs1v15", ("rsa", "sha256"): "rsassa_pkcs1v15",
           ("ec", "sha1"): "sha1_ecdsa", ("ec", "sha256"): "sha256_ecdsa",
           ("dsa", "sha1"): "sha1_dsa", ("dsa", "sha256"): "sha256_dsa"}


def signer_info(sf, keyname, alg, signed_attrs, refer=None, sign_over=None, attr_digest_of=None, declare_alg=None,
                attr_digest_value=None):
    """One SignerInfo (asn1crypto object).

    keyname       fixed key that produces the signature value
    refer         name of the certificate whose issuer+serial goes into `sid` (default: keyname's own certificate)
    signed_attrs  True: contentType + messageDigest attributes, signature over their DER SET OF encoding
    sign_over     None | "sf": with signed attributes, (wrongly) sign the .SF itself instead of the attributes
    attr_digest_of  bytes whose digest goes into messageDigest (default: the .SF)
    attr_digest_value  literal bytes for the messageDigest attribute (overrides attr_digest_of; any length, may be empty);
                  the signature is still computed validly over the resulting attributes
    declare_alg   digest algorithm written into the digestAlgorithm field (default: alg, the one really used)
    """
    from asn1crypto import cms, x509
    c = x509.Certificate.load(cert_der(refer or keyname))
    si = {"version": "v1",
          "sid": cms.SignerIdentifier({"issuer_and_serial_number": cms.IssuerAndSerialNumber(
              {"issuer": c.issuer, "serial_number": c.serial_number})}),
          "digest_algorithm": {"algorithm": declare_alg or alg},
          "signature_algorithm": {"algorithm": _SIGALG[key_kind(keyname), alg]}}
    if signed_attrs:
        attrs = cms.CMSAttributes([
            cms.CMSAttribute({"type": "content_type", "values": ["data"]}),
            cms.CMSAttribute({"type": "message_digest",
                              "values": [attr_digest_value if attr_digest_value is not None else
                                         hashlib.new(alg, sf if attr_digest_of is None else attr_digest_of).digest()]})])
        si["signed_attrs"] = attrs
        tbs = sf if sign_over == "sf" else attrs.dump()
        assert attrs.dump()[:1] == b"\x31"
    else:
        tbs = sf
    si["signature"] = raw_sign(keyname, alg, tbs)
    return cms.SignerInfo(si)


def signer_info_with_serial(sf, keyname, alg, signed_attrs, serial_octets):
    """SignerInfo (raw bytes) signed with `keyname` and referring to keyname's certificate by its issuer, but with the given raw
    CONTENT OCTETS as serial INTEGER (any encoding: sign octet dropped / added, other value ...).  The signature stays valid:
    neither the signed attributes nor the .SF contain the signer identifier."""
    si = signer_info(sf, keyname, alg, signed_attrs)
    raw = si.dump()
    sid = si["sid"].dump()
    new_sid = der(0x30, si["sid"].chosen["issuer"].dump() + der(0x02, serial_octets))
    hl = 2 if raw[1] < 0x80 else 2 + (raw[1] & 0x7F)
    body = raw[hl:]
    assert body.count(sid) == 1
    return der(0x30, body.replace(sid, new_sid))


def serial_octets(name):
    """minimal DER content octets of the serial number of certificate `name`"""
    from asn1crypto import x509
    return x509.Certificate.load(cert_der(name))["tbs_certificate"]["serial_number"].contents


def signer_info_ber_attrs(sf, keyname, alg, form, sign_over):
    """SignerInfo (raw bytes) whose signedAttrs field is stored with a legal but NON-minimal BER length.
    form       "81": A0 81 nn ...   "8200": A0 82 00 nn ...   (nn = content length < 128)
    sign_over  "der":    signature over the canonical DER encoding 31 nn ... (what RFC 5652 5.4 prescribes)
               "stored": signature over the stored encoding with only the tag octet replaced, 31 81 nn ... / 31 82 00 nn ...
                         (what Android's V1SchemeVerifier and androguard hash: they do not re-encode)"""
    from asn1crypto import cms
    si = signer_info(sf, keyname, alg, True)
    canon = si["signed_attrs"].dump()                      # A0 nn contents
    assert canon[0] == 0xA0 and canon[1] < 0x80 and len(canon) == 2 + canon[1]
    lenform = {"81": bytes([0x81, canon[1]]), "8200": bytes([0x82, 0x00, canon[1]])}[form]
    stored = b"\xa0" + lenform + canon[2:]
    if sign_over == "stored":
        d = {k: si[k] for k in ("version", "sid", "digest_algorithm", "signed_attrs", "signature_algorithm")}
        d["signature"] = raw_sign(keyname, alg, b"\x31" + stored[1:])
        si = cms.SignerInfo(d)
    raw = si.dump()
    hl = 2 if raw[1] < 0x80 else 2 + (raw[1] & 0x7F)
    body = raw[hl:]
    assert body.count(canon) == 1
    return der(0x30, body.replace(canon, stored))


def der(tag, content):
    """One definite-length DER TLV."""
    n = len(content)
    if n < 0x80:
        ln = bytes([n])
    else:
        b = n.to_bytes((n.bit_length() + 7) // 8, "big")
        ln = bytes([0x80 | len(b)]) + b
    return bytes([tag]) + ln + bytes(content)


def pkcs7(signer_infos, bag, algs):
    """Detached PKCS#7 SignedData.  bag: certificate names.  The SET OF fields (certificates, signerInfos, digestAlgorithms)
    are assembled by hand IN THE GIVEN ORDER (asn1crypto would sort them as DER demands; signers found in the wild do not, and
    the order is what the structural variants are about)."""
    from asn1crypto import algos, cms
    body = (der(0x02, b"\x01")
            + der(0x31, b"".join(algos.DigestAlgorithm({"algorithm": a}).dump() for a in algs))
            + cms.EncapsulatedContentInfo({"content_type": "data"}).dump()
            + der(0xA0, b"".join(cert_der(n) for n in bag))
            + der(0x31, b"".join(si if isinstance(si, bytes) else si.dump() for si in signer_infos)))
    return der(0x30, cms.ContentType("signed_data").dump() + der(0xA0, der(0x30, body)))


def block_ext(keyname):
    return {"rsa": "RSA", "ec": "EC", "dsa": "DSA"}[key_kind(keyname)]


def v1_files(entries, alg, p7_for_sf, stem="CERT", ext="RSA"):
    """entries [(name, data)] -> (META-INF entries [(name, data)], sf bytes, p7 bytes).  p7_for_sf: callable(sf) -> bytes"""
    mf, sections = manifest_mf(entries, alg)
    sf = signature_sf(mf, sections, alg)
    p7 = p7_for_sf(sf)
    return [("META-INF/MANIFEST.MF", mf), ("META-INF/%s.SF" % stem, sf), ("META-INF/%s.%s" % (stem, ext), p7)], sf, p7


def locate(blob, part):
    """Offset of `part` inside `blob`; it must occur exactly once (used to address SignerInfo fields for fault injection)."""
    if blob.count(part) != 1:
        raise ValueError("field occurs %d times" % blob.count(part))
    return blob.index(part)


if __name__ == "__main__":
    import sys
    if sys.argv[1:] == ["genkeys"]:
        genkeys()
        print(sorted(os.listdir(KEYDIR)))
