"""Minimal independent DEX reader (header, id tables, class_defs, class_data, code items, tries, encoded values,
annotations, debug-info length) -> the model classes of gen/dexgen.py.  Written from the DEX specification; used
(a) as a second opinion on shipped files and (b) to check that dexgen's output round-trips (writer conformance)."""
import struct

from gen import dexgen as G


class Reader:
    def __init__(self, b):
        self.b = bytes(b)
        (magic, self.checksum, self.sig, self.file_size, self.header_size, self.endian, self.link_size, self.link_off,
         self.map_off, self.n_s, self.o_s, self.n_t, self.o_t, self.n_p, self.o_p, self.n_f, self.o_f, self.n_m, self.o_m,
         self.n_c, self.o_c, self.data_size, self.data_off) = struct.unpack_from("<8sI20sIIIIIIIIIIIIIIIIIIII", self.b, 0)
        self.magic = magic
        self.strings = [self._string(struct.unpack_from("<I", self.b, self.o_s + 4 * i)[0]) for i in range(self.n_s)]
        self.types = [self.strings[struct.unpack_from("<I", self.b, self.o_t + 4 * i)[0]] for i in range(self.n_t)]
        self.protos = []
        for i in range(self.n_p):
            sh, ret, po = struct.unpack_from("<III", self.b, self.o_p + 12 * i)
            self.protos.append((self.types[ret], tuple(self.typelist(po))))
        self.fields = []
        for i in range(self.n_f):
            c, t, n = struct.unpack_from("<HHI", self.b, self.o_f + 8 * i)
            self.fields.append((self.types[c], self.strings[n], self.types[t]))
        self.methods = []
        for i in range(self.n_m):
            c, p, n = struct.unpack_from("<HHI", self.b, self.o_m + 8 * i)
            self.methods.append((self.types[c], self.strings[n]) + self.protos[p])

    # -- primitives
    def uleb(self, o):
        v = s = 0
        while True:
            x = self.b[o]; o += 1
            v |= (x & 0x7f) << s; s += 7
            if not x & 0x80:
                return v, o

    def sleb(self, o):
        v = s = 0
        while True:
            x = self.b[o]; o += 1
            v |= (x & 0x7f) << s; s += 7
            if not x & 0x80:
                if x & 0x40:
                    v -= 1 << s
                return v, o

    def _string(self, o):
        n16, o = self.uleb(o)
        units = []
        b = self.b
        while b[o] != 0:
            x = b[o]
            if x < 0x80:
                units.append(x); o += 1
            elif x & 0xe0 == 0xc0:
                units.append(((x & 0x1f) << 6) | (b[o + 1] & 0x3f)); o += 2
            else:
                units.append(((x & 0x0f) << 12) | ((b[o + 1] & 0x3f) << 6) | (b[o + 2] & 0x3f)); o += 3
        assert len(units) == n16, (units, n16)
        return struct.pack("<%dH" % len(units), *units).decode("utf-16-le", "surrogatepass")

    def typelist(self, o):
        if o == 0:
            return []
        n, = struct.unpack_from("<I", self.b, o)
        return [self.types[i] for i in struct.unpack_from("<%dH" % n, self.b, o + 4)]

    # -- encoded values
    def value(self, o):
        h = self.b[o]; o += 1
        t, arg = h & 0x1f, h >> 5
        kind = {v: k for k, v in G.VT.items()}[t]

        def rd(n):
            return int.from_bytes(self.b[o:o + n], "little")
        if kind in ("byte", "short", "int", "long"):
            n = arg + 1
            v = rd(n)
            if v >> (8 * n - 1):
                v -= 1 << (8 * n)
            return G.EV(kind, v, n), o + n
        if kind == "char":
            return G.EV(kind, rd(arg + 1), arg + 1), o + arg + 1
        if kind in ("float", "double"):
            full = 4 if kind == "float" else 8
            n = arg + 1
            return G.EV(kind, rd(n) << (8 * (full - n)), n), o + n
        if kind in ("string", "type", "field", "method", "enum", "method_type", "method_handle"):
            n = arg + 1
            i = rd(n)
            v = {"string": lambda: self.strings[i], "type": lambda: self.types[i], "field": lambda: self.fields[i],
                 "enum": lambda: self.fields[i], "method": lambda: self.methods[i], "method_type": lambda: self.protos[i],
                 "method_handle": lambda: i}[kind]()
            return G.EV(kind, v, n), o + n
        if kind == "array":
            vals, o = self.array(o)
            return G.EV("array", vals), o
        if kind == "annotation":
            a, o = self.annotation(o)
            return G.EV("annotation", a), o
        if kind == "null":
            return G.EV("null"), o
        if kind == "boolean":
            return G.EV("boolean", bool(arg)), o
        raise ValueError(kind)

    def array(self, o):
        n, o = self.uleb(o)
        vals = []
        for _ in range(n):
            v, o = self.value(o)
            vals.append(v)
        return vals, o

    def annotation(self, o, visibility=1):
        t, o = self.uleb(o)
        n, o = self.uleb(o)
        els = []
        for _ in range(n):
            ni, o = self.uleb(o)
            v, o = self.value(o)
            els.append((self.strings[ni], v))
        return G.Annotation(self.types[t], els, visibility), o

    def annset(self, o):
        n, = struct.unpack_from("<I", self.b, o)
        res = []
        for ao in struct.unpack_from("<%dI" % n, self.b, o + 4):
            a, _ = self.annotation(ao + 1, self.b[ao])
            res.append(a)
        return res

    # -- debug info (length only)
    def debug_bytes(self, o):
        st = o
        _, o = self.uleb(o)
        n, o = self.uleb(o)
        for _ in range(n):
            _, o = self.uleb(o)
        while True:
            op = self.b[o]; o += 1
            if op == 0:
                break
            if op in (1, 5, 6, 9):
                _, o = self.uleb(o)
            elif op == 2:
                _, o = self.sleb(o)
            elif op in (3, 4):
                for _ in range(3 if op == 3 else 4):
                    _, o = self.uleb(o)
        return self.b[st:o]

    def code(self, o):
        regs, ins, outs, ntries, dbg, n = struct.unpack_from("<4H2I", self.b, o)
        p = o + 16
        insns = self.b[p:p + 2 * n]
        p += 2 * n
        tries, handlers = [], []
        if ntries:
            if n % 2:
                p += 2
            raw_tries = [struct.unpack_from("<IHH", self.b, p + 8 * i) for i in range(ntries)]
            p += 8 * ntries
            base = p
            cnt, p = self.uleb(p)
            offidx = {}
            for k in range(cnt):
                offidx[p - base] = k
                sz, p = self.sleb(p)
                pairs = []
                for _ in range(abs(sz)):
                    ti, p = self.uleb(p)
                    ad, p = self.uleb(p)
                    pairs.append((self.types[ti], ad))
                ca = None
                if sz <= 0:
                    ca, p = self.uleb(p)
                handlers.append(G.Handler(pairs, ca))
            tries = [(s, c, offidx[h]) for s, c, h in raw_tries]
        c = G.Code(regs, ins, outs, insns, tries, handlers, self.debug_bytes(dbg) if dbg else None)
        c.end = p
        c.off = o
        return c

    def model(self):
        classes = []
        for i in range(self.n_c):
            ci, acc, sup, ifo, src, ann, cdo, svo = struct.unpack_from("<8I", self.b, self.o_c + 32 * i)
            cname = self.types[ci]
            c = G.Class(cname, acc, self.types[sup] if sup != G.NO_INDEX else None, self.typelist(ifo),
                        self.strings[src] if src != G.NO_INDEX else None)
            if cdo:
                ns, o = self.uleb(cdo); ni, o = self.uleb(o); nd, o = self.uleb(o); nv, o = self.uleb(o)
                for n, dst in ((ns, c.sfields), (ni, c.ifields)):
                    idx = 0
                    for _ in range(n):
                        d, o = self.uleb(o); a, o = self.uleb(o)
                        idx += d
                        fc, fn, ft = self.fields[idx]
                        assert fc == cname
                        dst.append(G.Field(fn, ft, a))
                for n, dst in ((nd, c.dmethods), (nv, c.vmethods)):
                    idx = 0
                    for _ in range(n):
                        d, o = self.uleb(o); a, o = self.uleb(o); co, o = self.uleb(o)
                        idx += d
                        mc, mn, mr, mp = self.methods[idx]
                        assert mc == cname
                        dst.append(G.Method(mn, mr, mp, a, self.code(co) if co else None))
            else:
                c.no_class_data = True
            if svo:
                c.static_values, _ = self.array(svo)
            if ann:
                cs, nf, nm, npar = struct.unpack_from("<4I", self.b, ann)
                if cs:
                    c.annotations = self.annset(cs)
                p = ann + 16
                fmap = {(f.name, f.type): f for f in c.sfields + c.ifields}
                for _ in range(nf):
                    fi, so = struct.unpack_from("<II", self.b, p); p += 8
                    f = self.fields[fi]
                    c.field_annotations.append((fmap[(f[1], f[2])], self.annset(so)))
                mmap = {(m.name, m.ret, m.params): m for m in c.dmethods + c.vmethods}
                for _ in range(nm):
                    mi, so = struct.unpack_from("<II", self.b, p); p += 8
                    m = self.methods[mi]
                    c.method_annotations.append((mmap[(m[1], m[2], m[3])], self.annset(so)))
                c.param_annotations_count = npar
            classes.append(c)
        return G.Dex(classes, extra_strings=self.strings, extra_types=self.types, extra_fields=self.fields,
                     extra_methods=self.methods, version=self.magic[4:7])


def canon(dexmodel):
    """Canonical, comparable dump of a model (code as raw bytes)."""
    def ev(v):
        if v.kind == "array":
            return ("array", [ev(x) for x in v.value])
        if v.kind == "annotation":
            return ("annotation", ann(v.value))
        return (v.kind, v.value)

    def ann(a):
        return (a.type, a.visibility, sorted((n, ev(v)) for n, v in a.elements))

    def code(c):
        if c is None:
            return None
        ins = c.insns if isinstance(c.insns, (bytes, bytearray)) else b"<callable>"
        return (c.registers, c.ins, c.outs, bytes(ins), c.tries, [(h.pairs, h.catch_all) for h in c.handlers],
                bytes(c.debug) if c.debug else None)
    out = []
    for c in dexmodel.classes:
        out.append((c.name, c.access, c.superclass, tuple(c.interfaces), c.source,
                    [(f.name, f.type, f.access) for f in c.sfields], [(f.name, f.type, f.access) for f in c.ifields],
                    [(m.name, m.ret, m.params, m.access, code(m.code)) for m in c.dmethods],
                    [(m.name, m.ret, m.params, m.access, code(m.code)) for m in c.vmethods],
                    [ev(v) for v in c.static_values] if c.static_values else None,
                    sorted(ann(a) for a in c.annotations),
                    sorted(((f.name, f.type), sorted(ann(a) for a in anns)) for f, anns in c.field_annotations),
                    sorted(((m.name, m.ret, m.params), sorted(ann(a) for a in anns)) for m, anns in c.method_annotations)))
    return out
