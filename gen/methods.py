"""Bounded enumeration of small Dalvik methods for the CFG family (C10, C11, C12, C40).

A *skeleton* is a sequence of slots; slot i is one instruction.  Slot forms (JSON friendly tuples/lists):

    ("P",)        const/4 v0, 0                       plain
    ("T",)        div-int v0, v0, v0                  plain, can throw
    ("R",)        return-void
    ("X",)        throw v0
    ("G", t)      goto -> slot t                      (forward: goto 10t; backward: goto/16; the slot itself: goto/32, the
                                                      only form for which a zero offset is legal)
    ("I", t)      if-eqz v0 -> slot t
    ("K", t, u)   packed-switch v0 -> {t, u}          own payload, first_key 0
    ("S", t, u)   sparse-switch v0 -> {t, u}          own payload, keys 10, 20
    ("Ks", j) / ("Ss", j)   a switch that re-uses the payload of switch slot j (C40: shared payload)
    ("Kx", mode) / ("Sx", mode) / ("Ax", mode)   packed-switch / sparse-switch / fill-array-data whose 31t offset does NOT
                  address a payload (C40): mode in BOGUS_MODES = mid-self (middle of the instruction itself), mid-payload
                  (first payload + 4 bytes), mid-payload2 (first payload + 2 bytes), ins (the final return-void, an
                  ordinary instruction), end (first byte behind the code), beyond (end + 4), negative (2 bytes before 0)
    ("A",)        fill-array-data v0 -> own payload (width 1, 3 elements: odd size, so the payload carries a pad byte)
    ("C",) ("V",) ("N",) ("F",)   const-string / invoke-static / new-instance / sget: the xref-producing plain slots (C40)

A final `return-void` slot is always appended (index n = len(skeleton)), so control can never run into a payload;
targets t, u range over 0..n, i.e. over ALL slots including the first instruction, the slot itself and the final return.

Layouts (where the payloads go):
    "aligned"     after the final return, each payload 4-byte aligned (a nop spacer is emitted when needed) -- the only
                  layout the Dalvik specification allows, used by C10/C11/C12
    "misaligned"  after the final return, every payload at an offset that is 2 mod 4 (C40 only; not well-formed Dalvik)
    "first"       `goto/16 START`, payloads (aligned), START: slots   -> every 31t offset is negative
    "first-mis"   same with the payloads at 2 mod 4
    "mid"         slot 0, `goto/16 L`, payloads (aligned), L: slot 1 ... : a table in the middle of the code, jumped over
                  (only for skeletons with >= 1 slot and at least one payload)
  orphan = None | (kind, "before"|"after"), kind in K,S,A: one extra payload that no instruction references.

Try ranges (C10/C12): `tries` = [(i, j, hk, h[, h2])]: slots i..j inclusive, hk = "t" typed handler at slot h,
"a" catch-all at slot h, "b" typed at h plus catch-all at h2.  Callers pass them disjoint and sorted (DEX requirement).
`share_handler`: two tries with identical handler specs reference ONE encoded_catch_handler (as dx emits).

`build()` returns a `Built` carrying the code bytes (or a callable for dexgen when pool indices are needed), the
reference instruction list the generator KNOWS (offset, length, kind, targets) and the try table in byte offsets;
ref/cfg.py turns that into leaders / successors / coverage.  Nothing here imports androguard.
"""
import glob
import itertools
import os
import struct
import zipfile

from gen import dalvik as D
from gen import dexgen as G

CLS = "LT;"
EXT = "Lext/E;"
TYPED = ["LE0;", "LE1;"]
UNITS = {"P": 1, "T": 2, "R": 1, "X": 1, "I": 2, "K": 3, "S": 3, "Ks": 3, "Ss": 3, "A": 3, "C": 2, "V": 3, "N": 2, "F": 2,
         "Kx": 3, "Sx": 3, "Ax": 3}
BOGUS = ("Kx", "Sx", "Ax")
BOGUS_MODES = ("mid-self", "mid-payload", "mid-payload2", "ins", "end", "beyond", "negative")
SWITCH = ("K", "S", "Ks", "Ss")
LAYOUTS = ("aligned", "misaligned", "first", "first-mis")
LAYOUTS_MID = LAYOUTS + ("mid",)

_E = D.enc
_CONST = _E("const/4", 0, 0)
_DIV = _E("div-int", 0, 0, 0)
_RET = _E("return-void")
_THROW = _E("throw", 0)
_NOP = _E("nop")


def norm(sk):
    return tuple(tuple(s) for s in sk)


def alphabet(N, kinds="PTRXGIKS", bogus=()):
    """All slot forms over N target slots, simplest first; bogus = subset of BOGUS adds (kind, mode) for every mode."""
    out = []
    for k in kinds:
        if k in "PTRXCVNFA":
            out.append((k,))
        elif k in "GI":
            out += [(k, t) for t in range(N)]
        elif k in "KS":
            out += [(k, t, u) for t in range(N) for u in range(t, N)]
    for k in bogus:
        out += [(k, m) for m in BOGUS_MODES]
    return out


def skeletons(n, kinds="PTRXGIKS", first=None):
    """All skeletons of length n (targets over n+1 slots); `first` fixes slot 0 (sharding)."""
    al = alphabet(n + 1, kinds)
    pools = [al] * n
    if first is not None and n:
        pools = [[first]] + [al] * (n - 1)
    return itertools.product(*pools)


def try_configs(N, max_tries=2, both=True):
    """All try tables over N slots as (tries, share_handler): 0..max_tries disjoint, sorted slot intervals [i, j];
    handler slots over all N slots, typed / catch-all (single try, `both`: typed + catch-all at independent slots);
    two tries with identical handler specs additionally with ONE shared encoded_catch_handler."""
    yield (), False
    iv = [(i, j) for i in range(N) for j in range(i, N)]
    one = [("t", h) for h in range(N)] + [("a", h) for h in range(N)]
    if max_tries >= 1:
        for (i, j) in iv:
            for hk, h in one:
                yield ((i, j, hk, h),), False
            if both:
                for h in range(N):
                    for h2 in range(N):
                        yield ((i, j, "b", h, h2),), False
    if max_tries >= 2:
        for (i, j) in iv:
            for (k, l) in iv:
                if k <= j:
                    continue
                for a in one:
                    for b in one:
                        yield ((i, j) + a, (k, l) + b), False
                        if a == b:
                            yield ((i, j) + a, (k, l) + b), True


def try3_configs(N, patterns=("ttt", "tat")):
    """Tables of THREE disjoint, sorted try ranges over N slots as (tries, share_handler).  patterns: handler kind of
    try 1, 2, 3 (t typed, a catch-all); handler slots over all N slots each; whenever two of the three handler specs are
    identical the table is emitted twice: every try with its own encoded_catch_handler, and identical specs sharing ONE
    (so the sharing patterns (1,2), (2,3), (1,3), all three and none all occur)."""
    iv = [(i, j) for i in range(N) for j in range(i, N)]
    for a in iv:
        for b in iv:
            if b[0] <= a[1]:
                continue
            for c in iv:
                if c[0] <= b[1]:
                    continue
                for pat in patterns:
                    for h1 in range(N):
                        for h2 in range(N):
                            for h3 in range(N):
                                sp = ((pat[0], h1), (pat[1], h2), (pat[2], h3))
                                t = (a + sp[0], b + sp[1], c + sp[2])
                                yield t, False
                                if len(set(sp)) < 3:
                                    yield t, True


class Built:
    __slots__ = ("sk", "tries", "layout", "orphan", "share_handler", "code", "needs_pool", "ins", "slot_off", "rtries",
                 "dex_tries", "dex_handlers", "size", "payload_of", "payloads", "start_off", "_sizes", "_slot_units", "edit", "hperm")

    def witness(self):
        w = {"sk": [list(s) for s in self.sk]}
        if self.tries:
            w["tries"] = [list(t) for t in self.tries]
        if self.share_handler:
            w["share_handler"] = True
        if self.layout != "aligned":
            w["layout"] = self.layout
        if self.orphan:
            w["orphan"] = list(self.orphan)
        if getattr(self, "edit", None):
            w["edit"] = self.edit
        if getattr(self, "hperm", 0):
            w["hperm"] = self.hperm
        return w


def from_witness(w):
    b = build(norm(w["sk"]), tuple(tuple(t) for t in w.get("tries", ())), w.get("layout", "aligned"),
              tuple(w["orphan"]) if w.get("orphan") else None, bool(w.get("share_handler")))
    if b is not None and w.get("hperm"):
        b = retry(b, b.tries, b.share_handler, w["hperm"])
    if b is not None and w.get("edit"):
        b.edit = w["edit"]
    return b


# History family: ONE edit of the instruction list through the public set_instructions() API between two analyses
EDITS = ("nop1", "nop2", "nop-after-return", "self")


def edited_code(b, edit):
    """-> (expected code bytes after the edit, list position at which nops are inserted, number of nops)."""
    code = b.code
    if edit == "nop1":
        return b"\x00\x00" + code, 0, 1
    if edit == "nop2":
        return b"\x00\x00\x00\x00" + code, 0, 2
    if edit == "nop-after-return":
        at = b.slot_off[-1]
        pos = [i[0] for i in b.ins].index(at) + 1
        return code[:at + 2] + b"\x00\x00" + code[at + 2:], pos, 1
    return code, 0, 0


def _payload_bytes(kind, rel, slot_index):
    """-> (bytes, description) ; rel = relative targets in code units."""
    if kind in ("K", "Ks"):
        return D.packed_switch_payload(0, rel), ("packed", [0, 1][:len(rel)], list(rel))
    if kind in ("S", "Ss"):
        keys = [10, 20][:len(rel)]
        return D.sparse_switch_payload(keys, rel), ("sparse", keys, list(rel))
    data = bytes([(0x11 * (slot_index + 1)) & 0xff, 0x5a, 0xa5])
    return D.fill_array_payload(1, data), ("array", 1, data)


def build(sk, tries=(), layout="aligned", orphan=None, share_handler=False):
    """Lay out and assemble one method.  Returns Built, or None when the shape is not realisable
    (a shared-payload switch whose inherited relative targets do not land on instruction starts)."""
    slots = list(sk) + [("R",)]
    N = len(slots)
    first = layout.startswith("first")
    mis = layout in ("misaligned", "first-mis")
    own = [i for i, s in enumerate(slots) if s[0] in ("K", "S", "A")]      # slots that own a payload
    plist = [("slot", i) for i in own]
    if orphan:
        o = ("orphan", orphan[0])
        plist = [o] + plist if orphan[1] == "before" else plist + [o]

    def psize(p):                                                        # payload size in units
        k = slots[p[1]][0] if p[0] == "slot" else p[1]
        if k == "K":
            return 4 + 2 * 2
        if k == "S":
            return 2 + 4 * 2
        return 4 + 2                                                      # array: 8 + 3 data + 1 pad = 12 bytes

    def lay_payloads(pos):
        """-> (list of (p, off_units, padded), end position)"""
        res = []
        for p in plist:
            padded = False
            if (pos % 2 == 1) != mis:       # pos odd (in units) == byte offset 2 mod 4
                pos += 1
                padded = True
            res.append((p, pos, padded))
            pos += psize(p)
        return res, pos

    def gsize(i, s):          # goto: forward 10t, backward 20t (goto/16), to itself 30t (goto/32; the only legal zero offset)
        return 3 if s[1] == i else (2 if s[1] < i else 1)
    sizes = [(gsize(i, s) if s[0] == "G" else UNITS.get(s[0], 1)) for i, s in enumerate(slots)]
    # payload region: behind the final return, or (first*) before slot 0, or (mid) between slot 0 and slot 1; in the
    # latter two cases a `goto/16` placed in front of the region jumps over it
    split = 0 if first else (1 if layout == "mid" else None)
    if layout == "mid" and (not plist or N < 2):
        return None
    pos = 0
    start = goto_at = 0
    slot_off = []
    for idx, z in enumerate(sizes):
        if idx == split:
            goto_at = pos
            pos += 2                                                      # goto/16
            pl, pos = lay_payloads(pos)
            start = pos
        slot_off.append(pos)
        pos += z
    if split is None:
        pl, pos = lay_payloads(pos)
    total = pos
    poff = {}
    for p, off, _pad in pl:
        poff[p] = off
    # relative targets of every payload-owning switch
    rel = {}
    for i in own:
        s = slots[i]
        if s[0] in ("K", "S"):
            rel[i] = [slot_off[s[1]] - slot_off[i], slot_off[s[2]] - slot_off[i]]
    valid = set(slot_off)
    bogus_at = {}                                                         # slot -> encoded absolute BYTE offset (no payload there)
    targets = {}                                                          # slot -> absolute targets (units)
    payload_of = {}                                                       # slot -> payload offset (units)
    for i, s in enumerate(slots):
        k = s[0]
        if k in ("K", "S"):
            targets[i] = [slot_off[i] + r for r in rel[i]]
            payload_of[i] = poff[("slot", i)]
        elif k in ("Ks", "Ss"):
            j = s[1]
            if j == i or slots[j][0] != k[0]:
                return None
            targets[i] = [slot_off[i] + r for r in rel[j]]
            if any(t not in valid for t in targets[i]):
                return None
            payload_of[i] = poff[("slot", j)]
        elif k == "A":
            payload_of[i] = poff[("slot", i)]
        elif k in BOGUS:
            mode = s[1]
            if mode == "mid-self":
                bogus_at[i] = slot_off[i] * 2 + 2
            elif mode in ("mid-payload", "mid-payload2"):
                if not pl:
                    return None
                bogus_at[i] = pl[0][1] * 2 + (4 if mode == "mid-payload" else 2)
            elif mode == "ins":
                bogus_at[i] = slot_off[N - 1] * 2
            elif mode == "end":
                bogus_at[i] = total * 2
            elif mode == "beyond":
                bogus_at[i] = total * 2 + 4
            else:
                bogus_at[i] = -2
    # ---- emit
    out = bytearray()
    ins = []                                                              # reference instruction list (byte offsets)
    needs_pool = any(s[0] in "CVNF" and len(s[0]) == 1 for s in slots)
    pool_slots = []

    def emit_payloads():
        for p, off, padded in pl:
            if padded:
                ins.append((len(out), 2, "nop", (), None))
                out.extend(_NOP)
            assert len(out) == off * 2, (len(out), off)
            if p[0] == "slot":
                k = slots[p[1]][0]
                b, desc = _payload_bytes(k, rel.get(p[1], ()), p[1])
            else:
                b, desc = _payload_bytes(p[1], [0, 0], 7)
            ins.append((len(out), len(b), "payload", (), desc))
            out.extend(b)

    for i, s in enumerate(slots):
        if i == split:
            ins.append((goto_at * 2, 4, "goto", (start * 2,), None))
            out.extend(_E("goto/16", start - goto_at))
            emit_payloads()
        o = len(out)
        assert o == slot_off[i] * 2
        k = s[0]
        if k == "P":
            b, kind, tg = _CONST, "plain", ()
        elif k == "T":
            b, kind, tg = _DIV, "plain", ()
        elif k == "R":
            b, kind, tg = _RET, "return", ()
        elif k == "X":
            b, kind, tg = _THROW, "throw", ()
        elif k == "G":
            d = slot_off[s[1]] - slot_off[i]
            b = _E("goto/32", 0) if s[1] == i else (_E("goto/16", d) if s[1] < i else _E("goto", d))
            kind, tg = "goto", (slot_off[s[1]] * 2,)
        elif k == "I":
            b = _E("if-eqz", 0, slot_off[s[1]] - slot_off[i])
            kind, tg = "if", (slot_off[s[1]] * 2,)
        elif k in SWITCH:
            b = _E("packed-switch" if k[0] == "K" else "sparse-switch", 0, payload_of[i] - slot_off[i])
            kind, tg = "switch", tuple(t * 2 for t in targets[i])
        elif k == "A":
            b = _E("fill-array-data", 0, payload_of[i] - slot_off[i])
            kind, tg = "array", ()
        elif k in BOGUS:
            name = {"Kx": "packed-switch", "Sx": "sparse-switch", "Ax": "fill-array-data"}[k]
            b = _E(name, 0, bogus_at[i] // 2 - slot_off[i])
            kind, tg = ("array" if k == "Ax" else "switch"), ()
            ins.append((o, len(b), kind, tg, bogus_at[i]))
            out.extend(b)
            continue
        else:                                                             # pool-referencing plain slots, patched later
            b = b"\x00\x00" * UNITS[k]
            kind, tg = "plain", ()
            pool_slots.append((o, k))
        ins.append((o, len(b), kind, tg, payload_of[i] * 2 if i in payload_of else None))
        out.extend(b)
    if split is None:
        emit_payloads()
    assert len(out) == total * 2
    raw = bytes(out)

    m = Built()
    m.sk, m.tries, m.layout, m.orphan, m.share_handler = tuple(sk), tuple(tries), layout, orphan, share_handler
    m.ins, m.slot_off, m.size, m.needs_pool = ins, [x * 2 for x in slot_off], total * 2, needs_pool
    m.payload_of = {i: v * 2 for i, v in payload_of.items()}
    m.payloads = [(off * 2, p) for p, off, _ in pl]
    m.start_off = start * 2
    if needs_pool:
        def code(ix, raw=raw, pool_slots=tuple(pool_slots)):
            b = bytearray(raw)
            for o, k in pool_slots:
                if k == "C":
                    e = _E("const-string", 0, ix.string("s%d" % o))
                elif k == "V":
                    e = _E("invoke-static", ix.method(CLS, "callee", "V", ()), [])
                elif k == "N":
                    e = _E("new-instance", 0, ix.type(EXT))
                else:
                    e = _E("sget", 0, ix.field(CLS, "f", "I"))
                b[o:o + len(e)] = e
            return bytes(b)
        m.code = code
    else:
        m.code = raw
    m._sizes = sizes
    m._slot_units = slot_off
    m.edit = None
    m.hperm = 0
    set_tries(m, tries, share_handler)
    return m


def set_tries(m, tries, share_handler=False):
    """(Re)compute the try table of a Built in place; tries = [(i, j, hk, h[, h2])] over slots."""
    slot_off, sizes = m._slot_units, m._sizes
    m.tries, m.share_handler = tuple(tries), share_handler
    m.rtries, m.dex_tries, m.dex_handlers = [], [], []
    seen = {}
    for n_try, t in enumerate(tries):
        i, j, hk = t[0], t[1], t[2]
        s_u = slot_off[i]
        e_u = slot_off[j] + sizes[j]
        ty = TYPED[n_try % 2]
        if hk == "t":
            pairs, ca = [(ty, slot_off[t[3]])], None
        elif hk == "a":
            pairs, ca = [], slot_off[t[3]]
        else:
            pairs, ca = [(ty, slot_off[t[3]])], slot_off[t[4]]
        spec = tuple(t[2:])
        if share_handler and spec in seen:
            hi = seen[spec]
            pairs = m.dex_handlers[hi].pairs
        else:
            hi = len(m.dex_handlers)
            m.dex_handlers.append(G.Handler(pairs, ca))
            seen[spec] = hi
        m.dex_tries.append((s_u, e_u - s_u, hi))
        hl = [(p[0], p[1] * 2) for p in pairs]
        if ca is not None:
            hl.append((None, ca * 2))
        m.rtries.append((s_u * 2, e_u * 2, hl))
    # the encoded_catch_handler_list may hold its entries in ANY order (try items refer to them by offset): hperm = k
    # selects the k-th permutation (lexicographic) of the emitted handler entries; None/0 = order of first use
    k = getattr(m, "hperm", None) or 0
    nh = len(m.dex_handlers)
    if k:
        perms = list(itertools.permutations(range(nh)))
        if k >= len(perms):
            return None
        perm = perms[k]                                 # new position j holds old handler perm[j]
        newpos = {old: j for j, old in enumerate(perm)}
        m.dex_handlers = [m.dex_handlers[o] for o in perm]
        m.dex_tries = [(a, c, newpos[h]) for a, c, h in m.dex_tries]
    return m


def retry(m, tries, share_handler=False, hperm=0):
    """A copy of Built `m` (same code bytes) with another try table (None if hperm exceeds the number of permutations)."""
    c = Built()
    for k in Built.__slots__:
        if hasattr(m, k):
            setattr(c, k, getattr(m, k))
    c.hperm = hperm
    return set_tries(c, tries, share_handler)


# --------------------------------------------------------------------------------------------------- DEX wrapping
def method_name(k):
    return "m%d" % k


def wrap(builts):
    """One class LT; with static methods m0..m{k-1} (+ callee()V and static field f:I when a method needs pool refs)."""
    ms = []
    pool = False
    for k, b in enumerate(builts):
        pool = pool or b.needs_pool
        ms.append(G.Method(method_name(k), "V", (), G.ACC_PUBLIC | G.ACC_STATIC,
                           G.Code(registers=1, ins=0, outs=0, insns=b.code, tries=b.dex_tries, handlers=b.dex_handlers)))
    sf = []
    if pool:
        ms.append(G.Method("callee", "V", (), G.ACC_PUBLIC | G.ACC_STATIC, G.Code(1, 0, 0, _RET)))
        sf = [G.Field("f", "I", G.ACC_PUBLIC | G.ACC_STATIC)]
    return G.build(G.Dex([G.Class(CLS, sfields=sf, dmethods=ms)]))


# --------------------------------------------------------------------------------------------------- shipped corpus
SHIPPED_APKS = ("hello-world.apk", "TestActivity.apk", "multidex.apk")


def shipped_files(repo, quick=False):
    """[(name, bytes)] of every shipped DEX file (tests/data/APK/*.dex and classes*.dex inside three APKs).
    quick: classes.dex only (the largest single file)."""
    base = os.path.join(repo, "tests", "data", "APK")
    out = []
    for p in sorted(glob.glob(os.path.join(base, "*.dex"))):
        if quick and os.path.basename(p) != "classes.dex":
            continue
        with open(p, "rb") as f:
            out.append((os.path.basename(p), f.read()))
    if not quick:
        for a in SHIPPED_APKS:
            try:
                z = zipfile.ZipFile(os.path.join(base, a))
            except (OSError, zipfile.BadZipFile):
                continue
            for n in sorted(z.namelist()):
                if n.startswith("classes") and n.endswith(".dex"):
                    raw = z.read(n)
                    if raw[:4] == b"dex\n":
                        out.append((a + ":" + n, raw))
    return out


def shipped_file(repo, name):
    base = os.path.join(repo, "tests", "data", "APK")
    if ":" in name:
        a, n = name.split(":", 1)
        return zipfile.ZipFile(os.path.join(base, a)).read(n)
    with open(os.path.join(base, name), "rb") as f:
        return f.read()


# --------------------------------------------------------------------------------------------------- field maxima
def _big_switch(kind):
    a = D.Asm()
    sw, t0, t1, t2 = D.Label("sw"), D.Label("t0"), D.Label("t1"), D.Label("t2")
    pay = D.Label("pay")
    a.label(sw)
    a.ins(kind + "-switch", 0, pay)
    a.label(t0); a.ins("const/4", 0, 0)
    a.label(t1); a.ins("div-int", 0, 0, 0)
    a.label(t2); a.ins("return-void")
    a.align4()
    a.label(pay)
    tg = [(t0, t1, t2, sw)[i % 4] for i in range(500)]
    if kind == "packed":
        a.packed(sw, -250, tg)
    else:
        a.sparse(sw, [7 * i - 1000 for i in range(500)], tg)
    return a.assemble()[0], [], []


def _big_far_offsets():
    # goto/32 over 70000 nops, if-eqz with the most negative 16-bit offset, a try range with insn_count 65535 and
    # handler addresses > 65535
    a = D.Asm()
    L, back = D.Label("L"), D.Label("back")
    a.ins("goto/32", L)
    nn = 70000
    for i in range(nn):
        if i == nn - 32768:
            a.label(back)
        a.ins("nop")
    a.label(L)
    a.ins("if-eqz", 0, back)
    a.ins("return-void")
    code = a.assemble()[0]
    assert (L.off - back.off) // 2 == 32768
    return code, [(3, 65535, 0)], [G.Handler([("LE0;", L.off // 2)], L.off // 2 + 2)]


def _big_array():
    a = D.Asm()
    S2, P2 = D.Label("S"), D.Label("P")
    a.ins("goto/32", S2)
    a.align4()
    a.label(P2)
    a.array(8, bytes(range(256)) * 312 + bytes(128))
    a.label(S2)
    a.ins("fill-array-data", 0, P2)
    a.ins("return-void")
    return a.assemble()[0], [], []


def _big_far_payload(backward):
    """31t offsets beyond 0x8000 code units (more than 64 KiB between the instruction and its payload)."""
    a = D.Asm()
    sw, t0, t1, pay, arr, S = (D.Label(x) for x in ("sw", "t0", "t1", "pay", "arr", "S"))
    if not backward:
        a.label(sw); a.ins("packed-switch", 0, pay)
        a.ins("fill-array-data", 0, arr)
        a.label(t0); a.ins("const/4", 0, 0)
        a.label(t1); a.ins("return-void")
        for _ in range(0x9000):
            a.ins("nop")
        a.align4(); a.label(pay); a.packed(sw, 0, [t0, t1, sw])
        a.align4(); a.label(arr); a.array(2, b"\x01\x02\x03\x04")
    else:
        a.ins("goto/32", S)
        a.align4(); a.label(pay); a.sparse(sw, [-5, 5], [t0, t1])
        a.align4(); a.label(arr); a.array(4, b"\x01\x02\x03\x04")
        for _ in range(0x9000):
            a.ins("nop")
        a.label(S)
        a.label(sw); a.ins("sparse-switch", 0, pay)
        a.ins("fill-array-data", 0, arr)
        a.label(t0); a.ins("const/4", 0, 0)
        a.label(t1); a.ins("return-void")
    return a.assemble()[0], [], []


# encoding-width boundaries of the try / handler tables: the encoded_catch_handler_list size, handler type indices and
# handler addresses are ULEB128 values that grow from one to two bytes at 128
HB_SIZES = (126, 127, 128, 129, 130)
HB_SELECT = ("first", "last", "boundary", "all")


def _handler_boundary(H, sel):
    """H handler entries (entry i: typed LHi; -> instruction i, every third one catch-all instead), code = 132 const/4 +
    return-void; try items of one instruction each that reference the first / last / the entries around index 127 / all."""
    n = 132
    code = _CONST * n + _RET
    hs = []
    for i in range(H):
        if i % 3 == 2:
            hs.append(G.Handler([], i))
        else:
            hs.append(G.Handler([("LH%03d;" % i, i)], None))
    idx = {"first": [0], "last": [H - 1], "boundary": [i for i in (126, 127, 128) if i < H], "all": list(range(H))}[sel]
    tries = [(i + 1, 1, i) for i in idx]                  # try k covers instruction k+1, its handler sits at instruction k
    return code, tries, hs


BIG_BUILDERS = {"packed-500-cases": lambda: _big_switch("packed"), "sparse-500-cases": lambda: _big_switch("sparse"),
                "far-offsets": _big_far_offsets, "array-80000-bytes": _big_array,
                "far-payload-forward": lambda: _big_far_payload(False),
                "far-payload-backward": lambda: _big_far_payload(True)}
for _H in HB_SIZES:
    for _s in HB_SELECT:
        BIG_BUILDERS["handlers-%d-%s" % (_H, _s)] = (lambda H=_H, s=_s: _handler_boundary(H, s))
BIG = tuple(BIG_BUILDERS)


def big_method(name):
    """Fixed representatives at the large end / at the encoding-width boundaries of the size, offset and count fields
    -> (code bytes, tries, handlers)."""
    return BIG_BUILDERS[name]()


def wrap_raw(code, tries=(), handlers=(), name="big"):
    m = G.Method(name, "V", (), G.ACC_PUBLIC | G.ACC_STATIC, G.Code(1, 0, 0, code, list(tries), list(handlers)))
    return G.build(G.Dex([G.Class(CLS, dmethods=[m])]))


def decoy_dex():
    """A fixed DIFFERENT input under the SAME names (class LT;, methods m0..m3, callee, field f): analysed before every
    judged batch, results ignored -- state kept per class / method name, method index or code offset would surface."""
    bs = [build((("K", 2, 3), ("T",), ("I", 0)), ((0, 1, "t", 2), (2, 3, "a", 0))),
          build((("A",), ("S", 0, 0), ("G", 1)), ((1, 1, "b", 0, 3),), "first"),
          build((("X",),)),
          build((("V",), ("C",), ("F",), ("N",)))]
    return wrap(bs)
