"""Builds REAL androguard decompiler `Graph` objects for the enumerated structures (shared by C18, C19, C20).

androguard is imported lazily (the runner has put VERIF_REPO first on sys.path).
"""
import os

DEX_FILES = ["Test.dex", "ExceptionHandling.dex", "AnalysisTest.dex", "StringTests.dex", "FillArrays.dex",
             "FieldsTest.dex", "InterfaceCls.dex", "classes.dex", "Annotation_classes.dex"]


def dex_files(ctx):
    """quick: the small files and classes.dex (2 291 methods); thorough adds Annotation_classes.dex (9 695 methods)."""
    return DEX_FILES if ctx.thorough else DEX_FILES[:-1]


_HNODE = None


def _hnode_class():
    """StatementBlock with a fixed hash: dom_lt keeps predecessors and buckets in SETS of nodes, whose iteration order
    follows the hash.  The default id()-based hash would make that order (and so the behaviour of a defective
    dom_lt, and the reproducibility of a witness) depend on memory addresses."""
    global _HNODE
    if _HNODE is None:
        from androguard.decompiler.basic_blocks import StatementBlock

        class HNode(StatementBlock):
            def __hash__(self):
                return self._h
        _HNODE = HNode
    return _HNODE


def make_nodes(n, ins_lists=None, hash_mode="asc"):
    """n real StatementBlock nodes named '0'..'n-1' (real BasicBlock numbering / catch-type code is exercised).
    hash_mode 'asc': sets of nodes iterate in ascending node index, 'desc': in descending index."""
    cls = _hnode_class()
    nodes = []
    for i in range(n):
        nd = cls(str(i), list(ins_lists[i]) if ins_lists else [])
        nd._h = i + 1 if hash_mode == "asc" else n - i
        nodes.append(nd)
    return nodes


def build(nodes, edges, entry=0):
    """Fresh real Graph over the given node objects; edges = [(u, v)] or [(u, v, kind)] in insertion order,
    kind 'n' (Graph.add_edge) or 'c' (Graph.add_catch_edge)."""
    from androguard.decompiler.graph import Graph
    g = Graph()
    for nd in nodes:
        nd.num = 0
        nd.po = 0
        nd.in_catch = False
        nd.catch_type = None
        g.add_node(nd)
    for e in edges:
        if len(e) > 2 and e[2] == "c":
            g.add_catch_edge(nodes[e[0]], nodes[e[1]])
            nodes[e[1]].in_catch = True          # what graph.make_node does for an exception target
        else:
            g.add_edge(nodes[e[0]], nodes[e[1]])
    g.entry = nodes[entry]
    return g


def dex_path(ctx, name):
    return os.path.join(ctx.repo, "tests", "data", "APK", name)


def dex_methods(ctx, name):
    """Yields (index, label, DvMethod) for every method with code of one shipped DEX file, in file order."""
    # no Session (the default session would create ./androguard.db): parse + Analysis directly
    from androguard.core.dex import DEX
    from androguard.core.analysis.analysis import Analysis
    from androguard.decompiler.decompile import DvMethod
    with open(dex_path(ctx, name), "rb") as f:
        d = DEX(f.read())
    dx = Analysis()
    dx.add(d)
    k = 0
    for c in d.get_classes():
        for m in c.get_methods():
            idx = k
            k += 1
            ma = dx.get_method(m)
            if ma is None:
                continue
            dm = DvMethod(ma)
            if dm.start_block is None:
                continue
            yield idx, "%s->%s%s" % (m.get_class_name(), m.get_name(), m.get_descriptor()), dm


def method_graph(dm):
    from androguard.decompiler.graph import construct
    return construct(dm.start_block, dm.var_to_name, dm.exceptions)


def index_graph(g):
    """(nodes list with entry first in g.nodes order, successor bit rows over edges U catch_edges, typed edge list)."""
    nodes = list(g.nodes)
    pos = {nd: i for i, nd in enumerate(nodes)}
    rows = [0] * len(nodes)
    edges = []
    for u, nd in enumerate(nodes):
        for s in g.edges.get(nd, []):
            rows[u] |= 1 << pos[s]
            edges.append((u, pos[s], "n"))
        for s in g.catch_edges.get(nd, []):
            rows[u] |= 1 << pos[s]
            edges.append((u, pos[s], "c"))
    return nodes, pos, rows, edges


# ---------------------------------------------------------------------------------------------------------------
# histories on ONE Graph object (C18/C19 'hist' family): model = (alive node indices, typed edge list, entry index)
OPS = ("add_edge", "add_catch_edge", "remove_node", "set_entry")


def model_rows(n, alive, edges):
    rows = [0] * n
    for e in edges:
        rows[e[0]] |= 1 << e[1]
    return rows


def model_rooted(n, alive, edges, entry):
    from gen import graphs as G
    want = 0
    for v in alive:
        want |= 1 << v
    return G.reach_from(n, model_rows(n, alive, edges), entry) == want


def candidate_ops(n, alive, edges, entry):
    """Every single mutation the Graph API offers on the model state, kept only if the result is still rooted."""
    have = {(e[0], e[1], e[2] if len(e) > 2 else "n") for e in edges}
    out = []
    for u in alive:
        for v in alive:
            if (u, v, "n") not in have:
                out.append(("add_edge", u, v))
            if (u, v, "c") not in have:
                out.append(("add_catch_edge", u, v))
    for x in alive:
        if x != entry and len(alive) > 1:
            out.append(("remove_node", x, x))
        if x != entry:
            out.append(("set_entry", x, x))
    res = []
    for op in out:
        a2, e2, en2 = apply_model(alive, edges, entry, op)
        if model_rooted(n, a2, e2, en2):
            res.append(op)
    return res


def apply_model(alive, edges, entry, op):
    kind, u, v = op
    edges = [(e[0], e[1], e[2] if len(e) > 2 else "n") for e in edges]
    if kind == "add_edge":
        return list(alive), edges + [(u, v, "n")], entry
    if kind == "add_catch_edge":
        return list(alive), edges + [(u, v, "c")], entry
    if kind == "remove_node":
        return [x for x in alive if x != u], [e for e in edges if u not in (e[0], e[1])], entry
    if kind == "set_entry":
        return list(alive), edges, u
    raise ValueError(op)


def apply_real(g, nodes, op):
    kind, u, v = op
    if kind == "add_edge":
        g.add_edge(nodes[u], nodes[v])
    elif kind == "add_catch_edge":
        g.add_catch_edge(nodes[u], nodes[v])
        nodes[v].in_catch = True
    elif kind == "remove_node":
        g.remove_node(nodes[u])
    elif kind == "set_entry":
        g.entry = nodes[u]
    else:
        raise ValueError(op)


def sub_view(n, nodes, alive, edges, entry):
    """Relabels the alive nodes 0..m-1: (node objects, successor rows, typed edges, entry index)."""
    pos = {x: i for i, x in enumerate(alive)}
    sub_edges = [(pos[e[0]], pos[e[1]], e[2] if len(e) > 2 else "n") for e in edges]
    rows = [0] * len(alive)
    for (a, b, _k) in sub_edges:
        rows[a] |= 1 << b
    return [nodes[x] for x in alive], rows, sub_edges, pos[entry]


# ---------------------------------------------------------------------------------------------------------------
# long-chain / big-fan families (size-gated code paths), see gen.graphs.long_cases
def recursion_limit():
    import sys
    import androguard.decompiler        # noqa  (sets the interpreter limit the decompiler runs under)
    return sys.getrecursionlimit()


def build_long(case, nodes_cache):
    """Real Graph for one long_cases descriptor.  Returns (g, nodes, edges, core_n, core_edges, core_off, want_idoms_fn).
    The L fan leaves are linked by filling Graph.edges / reverse_edges directly (as the project's own tests do):
    Graph.add_edge is quadratic in the out-degree."""
    from gen import graphs as G
    k, ce = case["k"], [tuple(e) for e in case["core"]]
    if case["kind"] == "chain":
        lc = G.long_chain(k, ce, case["mode"], case["L"], case["diamond"])
        n = lc["n"]
        nodes = _nodes(n, nodes_cache)
        g = build(nodes, lc["edges"])
        return g, nodes, lc["edges"], lc
    L = case["L"]
    n = k + L
    nodes = _nodes(n, nodes_cache)
    leaves = nodes[k:]
    if case["first"]:
        g = build(nodes, [])
        g.edges[nodes[0]].extend(leaves)
        for lf in leaves:
            g.reverse_edges[lf].append(nodes[0])
        for (u, v) in ce:
            g.add_edge(nodes[u], nodes[v])
        edges = [(0, k + i) for i in range(L)] + ce
    else:
        g = build(nodes, ce)
        g.edges[nodes[0]].extend(leaves)
        for lf in leaves:
            g.reverse_edges[lf].append(nodes[0])
        edges = ce + [(0, k + i) for i in range(L)]
    lc = {"n": n, "edges": edges, "K": k, "core_edges": ce, "core_off": 0, "chain_off": k, "mode": "fan", "L": L}
    return g, nodes, edges, lc


def _nodes(n, cache):
    have = cache.get("nodes", [])
    if len(have) < n:
        have = make_nodes(n)
        cache["nodes"] = have
    return have[:n]


def long_idoms(lc, core_idoms):
    from gen import graphs as G
    if lc["mode"] != "fan":
        return G.long_chain_idoms(lc, core_idoms)
    want = dict(core_idoms)
    for i in range(lc["L"]):
        want[lc["chain_off"] + i] = 0
    return want
