"""Independent DEX writer: class model -> bytes (format 035), written from the DEX format specification.

Model (plain Python objects, see the classes below):
    Dex(classes=[Class...], extra=[refs that must exist in the id tables even if nothing uses them])
    Class(name, access, superclass, interfaces, source, sfields, ifields, dmethods, vmethods, static_values, annotations)
    Field(name, type, access)                       Method(name, ret, params, access, code)
    Code(registers, ins, outs, insns, tries, handlers, debug)
        insns: bytes | callable(ix) -> bytes        ix.string(s) ix.type(t) ix.field(c,n,t) ix.method(c,n,ret,params) ix.proto(ret,params)
        tries: [(start_addr_units, insn_count_units, handler_index)]
        handlers: [Handler(pairs=[(type, addr_units)...], catch_all=addr|None)]
    EV(kind, value, width=None)                     encoded_value; kinds: byte short char int long float double string type
                                                    field method enum array annotation null boolean method_type
    Annotation(type, elements=[(name, EV)], visibility)

Layout: header, string_ids, type_ids, proto_ids, field_ids, method_ids, class_defs, data:
type_lists(4) code_items(4) class_data string_data debug_info annotation_items annotation_sets(4)
annotations_directories(4) encoded_arrays map_list(4).  Every item kind is contiguous in its own section,
and every section present is listed in the map with exact count and offset.
"""
import hashlib
import struct
import zlib

NO_INDEX = 0xffffffff

ACC_PUBLIC, ACC_PRIVATE, ACC_PROTECTED, ACC_STATIC, ACC_FINAL = 1, 2, 4, 8, 0x10
ACC_SYNCHRONIZED, ACC_NATIVE, ACC_INTERFACE, ACC_ABSTRACT = 0x20, 0x100, 0x200, 0x400
ACC_CONSTRUCTOR = 0x10000

T_HEADER, T_STRING_ID, T_TYPE_ID, T_PROTO_ID, T_FIELD_ID, T_METHOD_ID, T_CLASS_DEF = 0, 1, 2, 3, 4, 5, 6
T_MAP_LIST, T_TYPE_LIST, T_ANN_SET_REF_LIST, T_ANN_SET = 0x1000, 0x1001, 0x1002, 0x1003
T_CLASS_DATA, T_CODE, T_STRING_DATA, T_DEBUG_INFO, T_ANN_ITEM, T_ENC_ARRAY, T_ANN_DIR = \
    0x2000, 0x2001, 0x2002, 0x2003, 0x2004, 0x2005, 0x2006

VT = dict(byte=0x00, short=0x02, char=0x03, int=0x04, long=0x06, float=0x10, double=0x11, method_type=0x15,
          method_handle=0x16, string=0x17, type=0x18, field=0x19, method=0x1a, enum=0x1b, array=0x1c,
          annotation=0x1d, null=0x1e, boolean=0x1f)


# --------------------------------------------------------------------------- primitives
def uleb(v):
    assert v >= 0
    out = bytearray()
    while True:
        b = v & 0x7f
        v >>= 7
        if v:
            out.append(b | 0x80)
        else:
            out.append(b)
            return bytes(out)


def uleb_padded(v):
    """legal non-minimal unsigned LEB128: the minimal form with its last byte continued by a 0x00 septet"""
    m = bytearray(uleb(v))
    assert len(m) < 5
    m[-1] |= 0x80
    return bytes(m) + b"\x00"


def sleb(v):
    out = bytearray()
    while True:
        b = v & 0x7f
        v >>= 7
        if (v == 0 and not b & 0x40) or (v == -1 and b & 0x40):
            out.append(b)
            return bytes(out)
        out.append(b | 0x80)


def ulebp1(v):
    return uleb(v + 1)


def utf16_units(s):
    b = s.encode("utf-16-le", "surrogatepass")
    return list(struct.unpack("<%dH" % (len(b) // 2), b))


def mutf8(s):
    """Python str (may contain lone surrogates / non-BMP) -> (MUTF-8 bytes without terminator, utf16 length)."""
    us = utf16_units(s)
    out = bytearray()
    for u in us:
        if u != 0 and u < 0x80:
            out.append(u)
        elif u < 0x800:
            out += bytes([0xc0 | (u >> 6), 0x80 | (u & 0x3f)])
        else:
            out += bytes([0xe0 | (u >> 12), 0x80 | ((u >> 6) & 0x3f), 0x80 | (u & 0x3f)])
    return bytes(out), len(us)


def shorty_of(t):
    return "L" if t[0] in "L[" else t[0]


# --------------------------------------------------------------------------- model
class Field:
    def __init__(self, name, type, access=ACC_PUBLIC):
        self.name, self.type, self.access = name, type, access


class Handler:
    def __init__(self, pairs=(), catch_all=None, pad=False):
        self.pairs, self.catch_all = list(pairs), catch_all
        self.pad = pad          # True: write this handler's LEB128 numbers in a legal NON-minimal form (one extra 0x00 septet)


class Code:
    def __init__(self, registers=1, ins=0, outs=0, insns=b"\x0e\x00", tries=(), handlers=(), debug=None):
        self.registers, self.ins, self.outs, self.insns = registers, ins, outs, insns
        self.tries, self.handlers, self.debug = list(tries), list(handlers), debug


class Method:
    def __init__(self, name, ret="V", params=(), access=ACC_PUBLIC, code=None):
        self.name, self.ret, self.params, self.access, self.code = name, ret, tuple(params), access, code


class EV:
    def __init__(self, kind, value=None, width=None):
        self.kind, self.value, self.width = kind, value, width

    def __repr__(self):
        return "EV(%s,%r%s)" % (self.kind, self.value, "" if self.width is None else ",w=%d" % self.width)


class Annotation:
    def __init__(self, type, elements=(), visibility=1):
        self.type, self.elements, self.visibility = type, list(elements), visibility


class Class:
    def __init__(self, name, access=ACC_PUBLIC, superclass="Ljava/lang/Object;", interfaces=(), source=None,
                 sfields=(), ifields=(), dmethods=(), vmethods=(), static_values=None, annotations=(),
                 field_annotations=(), method_annotations=(), no_class_data=False):
        self.name, self.access, self.superclass = name, access, superclass
        self.interfaces, self.source = tuple(interfaces), source
        self.sfields, self.ifields = list(sfields), list(ifields)
        self.dmethods, self.vmethods = list(dmethods), list(vmethods)
        self.static_values = static_values          # list of EV (prefix of sfields order) or None
        self.annotations = list(annotations)        # class-level Annotation objects
        self.field_annotations = list(field_annotations)     # [(Field, [Annotation])]
        self.method_annotations = list(method_annotations)   # [(Method, [Annotation])]
        self.no_class_data = no_class_data


class Dex:
    def __init__(self, classes=(), extra_strings=(), extra_types=(), extra_fields=(), extra_methods=(), version=b"035"):
        self.classes = list(classes)
        self.extra_strings, self.extra_types = list(extra_strings), list(extra_types)
        self.extra_fields, self.extra_methods = list(extra_fields), list(extra_methods)   # (cls,name,type) / (cls,name,ret,params)
        self.version = version
        self.share_equal_arrays = False       # True: classes with byte-identical static_values share one encoded_array_item


# --------------------------------------------------------------------------- pools
class Pools:
    """Collect phase: every reference is recorded; after freeze() the sorted indices are available."""

    def __init__(self):
        self.strings, self.types, self.protos, self.fields, self.methods = set(), set(), set(), set(), set()
        self.frozen = False

    def string(self, s):
        if not self.frozen:
            self.strings.add(s)
            return 0
        return self.sidx[s]

    def type(self, t):
        if not self.frozen:
            self.types.add(t)
            self.strings.add(t)
            return 0
        return self.tidx[t]

    def proto(self, ret, params):
        params = tuple(params)
        if not self.frozen:
            self.protos.add((ret, params))
            self.type(ret)
            for p in params:
                self.type(p)
            self.strings.add(shorty_of(ret) + "".join(shorty_of(p) for p in params))
            return 0
        return self.pidx[(ret, params)]

    def field(self, cls, name, typ):
        if not self.frozen:
            self.fields.add((cls, name, typ))
            self.type(cls); self.type(typ); self.strings.add(name)
            return 0
        return self.fidx[(cls, name, typ)]

    def method(self, cls, name, ret, params):
        params = tuple(params)
        if not self.frozen:
            self.methods.add((cls, name, ret, params))
            self.type(cls); self.strings.add(name); self.proto(ret, params)
            return 0
        return self.midx[(cls, name, ret, params)]

    def freeze(self):
        self.slist = sorted(self.strings, key=utf16_units)
        self.sidx = {s: i for i, s in enumerate(self.slist)}
        self.tlist = sorted(self.types, key=lambda t: self.sidx[t])
        self.tidx = {t: i for i, t in enumerate(self.tlist)}
        self.plist = sorted(self.protos, key=lambda p: (self.tidx[p[0]], [self.tidx[x] for x in p[1]]))
        self.pidx = {p: i for i, p in enumerate(self.plist)}
        self.flist = sorted(self.fields, key=lambda f: (self.tidx[f[0]], self.sidx[f[1]], self.tidx[f[2]]))
        self.fidx = {f: i for i, f in enumerate(self.flist)}
        self.mlist = sorted(self.methods, key=lambda m: (self.tidx[m[0]], self.sidx[m[1]], self.pidx[(m[2], m[3])]))
        self.midx = {m: i for i, m in enumerate(self.mlist)}
        self.frozen = True


# --------------------------------------------------------------------------- encoded values
def _min_signed(v, maxw):
    for w in range(1, maxw + 1):
        if -(1 << (8 * w - 1)) <= v < (1 << (8 * w - 1)):
            return w
    raise ValueError((v, maxw))


def _min_unsigned(v, maxw):
    for w in range(1, maxw + 1):
        if v < (1 << (8 * w)):
            return w
    raise ValueError((v, maxw))


def enc_value(ev, P):
    k, v = ev.kind, ev.value
    t = VT[k]

    def signed(maxw):
        w = ev.width or _min_signed(v, maxw)
        return bytes([((w - 1) << 5) | t]) + (v & ((1 << (8 * w)) - 1)).to_bytes(w, "little")

    def unsigned(x, maxw):
        w = ev.width or _min_unsigned(x, maxw)
        return bytes([((w - 1) << 5) | t]) + (x & ((1 << (8 * w)) - 1)).to_bytes(w, "little")

    if k == "byte":
        return signed(1)
    if k == "short":
        return signed(2)
    if k == "int":
        return signed(4)
    if k == "long":
        return signed(8)
    if k == "char":
        return unsigned(v, 2)
    if k in ("float", "double"):
        full = 4 if k == "float" else 8
        raw = (v & ((1 << (8 * full)) - 1)).to_bytes(full, "little")     # v = IEEE bits
        w = ev.width
        if w is None:
            w = full
            while w > 1 and raw[full - w] == 0:
                w -= 1
        return bytes([((w - 1) << 5) | t]) + raw[full - w:]
    if k == "string":
        return unsigned(P.string(v), 4)
    if k == "type":
        return unsigned(P.type(v), 4)
    if k in ("field", "enum"):
        return unsigned(P.field(*v), 4)
    if k == "method":
        return unsigned(P.method(*v), 4)
    if k == "method_type":
        return unsigned(P.proto(*v), 4)
    if k == "method_handle":
        return unsigned(v, 4)
    if k == "array":
        return bytes([t]) + enc_array(v, P)
    if k == "annotation":
        return bytes([t]) + enc_annotation(v, P)
    if k == "null":
        return bytes([t])
    if k == "boolean":
        return bytes([(int(bool(v)) << 5) | t])
    raise ValueError(k)


def enc_array(vals, P):
    return uleb(len(vals)) + b"".join(enc_value(x, P) for x in vals)


def enc_annotation(a, P):
    """a: Annotation (visibility ignored here) -> encoded_annotation; elements sorted by name index when frozen."""
    els = list(a.elements)
    if P.frozen:
        els.sort(key=lambda e: P.sidx[e[0]])
    out = uleb(P.type(a.type)) + uleb(len(els))
    for name, ev in els:
        out += uleb(P.string(name)) + enc_value(ev, P)
    return out


# --------------------------------------------------------------------------- writer
class _Section:
    def __init__(self, typ, align):
        self.typ, self.align, self.items = typ, align, []     # items: bytes

    def add(self, b):
        self.items.append(b)
        return len(self.items) - 1


def _collect(dex, P):
    """Touch every reference once so that the pools are complete (also used in the emit phase)."""
    for s in dex.extra_strings:
        P.string(s)
    for t in dex.extra_types:
        P.type(t)
    for f in dex.extra_fields:
        P.field(*f)
    for m in dex.extra_methods:
        P.method(*m)


def build(dex, map_order=None, fix_header=True, return_layout=False, string_data_last=False):
    """-> bytes.  map_order: optional permutation (list of indices) applied to the map entries."""
    P = Pools()
    layout = {}
    for phase in (0, 1):
        _collect(dex, P)
        S = {t: _Section(t, a) for t, a in ((T_TYPE_LIST, 4), (T_CODE, 4), (T_CLASS_DATA, 1), (T_STRING_DATA, 1),
                                            (T_DEBUG_INFO, 1), (T_ANN_ITEM, 1), (T_ANN_SET, 4), (T_ANN_DIR, 4),
                                            (T_ENC_ARRAY, 1))}
        typelists = {}          # tuple(types) -> item index (shared)

        def typelist(ts):
            ts = tuple(ts)
            for t in ts:
                P.type(t)
            if not ts:
                return None
            if ts not in typelists:
                b = struct.pack("<I", len(ts)) + b"".join(struct.pack("<H", P.type(t)) for t in ts)
                typelists[ts] = S[T_TYPE_LIST].add(b)
            return typelists[ts]

        # protos' parameter lists
        proto_tl = {}
        # classes
        cls_rec = []
        for c in dex.classes:
            rec = {}
            P.type(c.name)
            if c.superclass:
                P.type(c.superclass)
            if c.source is not None:
                P.string(c.source)
            rec["interfaces"] = typelist(c.interfaces)
            # code items
            code_idx = {}
            for m in c.dmethods + c.vmethods:
                P.method(c.name, m.name, m.ret, m.params)
                if m.code is None:
                    continue
                cd = m.code
                insns = cd.insns(P) if callable(cd.insns) else bytes(cd.insns)
                assert len(insns) % 2 == 0
                dbg = None
                if cd.debug is not None:
                    dbg = S[T_DEBUG_INFO].add(cd.debug(P) if callable(cd.debug) else bytes(cd.debug))
                b = bytearray(struct.pack("<4H2I", cd.registers, cd.ins, cd.outs, len(cd.tries), 0, len(insns) // 2))
                b += insns
                if cd.tries:
                    if (len(insns) // 2) % 2 == 1:
                        b += b"\x00\x00"
                    hl = bytearray(uleb(len(cd.handlers)))
                    hoff = []
                    for h in cd.handlers:
                        hoff.append(len(hl))
                        n = len(h.pairs)
                        ul = uleb_padded if getattr(h, "pad", False) else uleb
                        hl += sleb(-n if h.catch_all is not None else n)
                        for (ty, addr) in h.pairs:
                            hl += ul(P.type(ty)) + ul(addr)
                        if h.catch_all is not None:
                            hl += ul(h.catch_all)
                    for (start, count, hi) in cd.tries:
                        b += struct.pack("<IHH", start, count, hoff[hi])
                    b += hl
                code_idx[id(m)] = (S[T_CODE].add(bytes(b)), dbg)
            rec["code_idx"] = code_idx
            for f in c.sfields + c.ifields:
                P.field(c.name, f.name, f.type)
            # static values
            rec["static_values"] = None
            if c.static_values:
                eb = enc_array(c.static_values, P)
                if getattr(dex, "share_equal_arrays", False) and eb in S[T_ENC_ARRAY].items:
                    # dx/d8 emit one encoded_array_item for classes whose static initial values are byte-identical
                    rec["static_values"] = S[T_ENC_ARRAY].items.index(eb)
                else:
                    rec["static_values"] = S[T_ENC_ARRAY].add(eb)
            # annotations

            def annset(anns):
                offs = [S[T_ANN_ITEM].add(bytes([a.visibility]) + enc_annotation(a, P)) for a in anns]
                if P.frozen:
                    order = sorted(range(len(anns)), key=lambda i: P.tidx[anns[i].type])
                    offs = [offs[i] for i in order]
                return S[T_ANN_SET].add(("set", offs))

            rec["anndir"] = None
            if c.annotations or c.field_annotations or c.method_annotations:
                cls_set = annset(c.annotations) if c.annotations else None
                fa = [(P.field(c.name, f.name, f.type), annset(a)) for f, a in c.field_annotations]
                ma = [(P.method(c.name, m.name, m.ret, m.params), annset(a)) for m, a in c.method_annotations]
                fa.sort(); ma.sort()
                rec["anndir"] = S[T_ANN_DIR].add(("dir", cls_set, fa, ma))
            cls_rec.append(rec)
        if phase == 0:
            # proto parameter lists need types collected first
            for (ret, params) in list(P.protos):
                typelist(params)
            P.freeze()
            continue
        for (ret, params) in P.plist:
            proto_tl[(ret, params)] = typelist(params)

        # string data
        for s in P.slist:
            data, n16 = mutf8(s)
            # dex.declared_utf16: optional {string: declared size}; the MUTF-8 bytes up to the NUL define the string, the size
            # field is advisory (the runtime uses it for allocation only)
            n16 = getattr(dex, "declared_utf16", {}).get(s, n16)
            S[T_STRING_DATA].add(uleb(n16) + data + b"\x00")

        # ---- layout -------------------------------------------------------------------
        n_s, n_t, n_p, n_f, n_m, n_c = len(P.slist), len(P.tlist), len(P.plist), len(P.flist), len(P.mlist), len(dex.classes)
        off = 0x70
        o_s = off; off += 4 * n_s
        o_t = off; off += 4 * n_t
        o_p = off; off += 12 * n_p
        o_f = off; off += 8 * n_f
        o_m = off; off += 8 * n_m
        o_c = off; off += 32 * n_c
        data_off = off
        item_off = {}            # (type, idx) -> absolute offset
        sec_off = {}

        def size_of(typ, it, cur):
            if isinstance(it, bytes):
                return len(it)
            if it[0] == "set":
                return 4 + 4 * len(it[1])
            if it[0] == "dir":
                return 16 + 8 * len(it[2]) + 8 * len(it[3])
            raise AssertionError

        order = [T_TYPE_LIST, T_CODE, T_CLASS_DATA, T_STRING_DATA, T_DEBUG_INFO, T_ANN_ITEM, T_ANN_SET, T_ANN_DIR, T_ENC_ARRAY]
        # class_data depends on code offsets -> build class_data after laying out type lists and code
        pos = data_off
        for typ in (T_TYPE_LIST, T_CODE):
            sec = S[typ]
            for i, it in enumerate(sec.items):
                pos = (pos + sec.align - 1) // sec.align * sec.align
                if i == 0:
                    sec_off[typ] = pos
                item_off[(typ, i)] = pos
                pos += len(it)
        # debug info offsets are needed inside code items; class data sizes depend on code offsets (uleb) ->
        # lay out debug-info/string-data/etc. AFTER class data, but code items need debug_info_off: two passes
        def class_data_bytes(c, rec):
            b = bytearray(uleb(len(c.sfields)) + uleb(len(c.ifields)) + uleb(len(c.dmethods)) + uleb(len(c.vmethods)))
            for group in (c.sfields, c.ifields):
                ents = sorted(((P.field(c.name, f.name, f.type), f) for f in group), key=lambda x: x[0])
                prev = 0
                for k, (idx, f) in enumerate(ents):
                    b += uleb(idx - prev) + uleb(f.access)
                    prev = idx
            for group in (c.dmethods, c.vmethods):
                ents = sorted(((P.method(c.name, m.name, m.ret, m.params), m) for m in group), key=lambda x: x[0])
                prev = 0
                for idx, m in ents:
                    co = 0
                    if m.code is not None:
                        co = item_off[(T_CODE, rec["code_idx"][id(m)][0])]
                    b += uleb(idx - prev) + uleb(m.access) + uleb(co)
                    prev = idx
            return bytes(b)

        cd_index = {}
        for ci, (c, rec) in enumerate(zip(dex.classes, cls_rec)):
            if c.no_class_data or not (c.sfields or c.ifields or c.dmethods or c.vmethods):
                cd_index[ci] = None
            else:
                cd_index[ci] = S[T_CLASS_DATA].add(class_data_bytes(c, rec))
        for typ in (T_CLASS_DATA, T_STRING_DATA, T_DEBUG_INFO, T_ANN_ITEM, T_ANN_SET, T_ANN_DIR, T_ENC_ARRAY):
            sec = S[typ]
            if typ == T_STRING_DATA and string_data_last:
                continue
            for i, it in enumerate(sec.items):
                pos = (pos + sec.align - 1) // sec.align * sec.align
                if i == 0:
                    sec_off[typ] = pos
                item_off[(typ, i)] = pos
                pos += size_of(typ, it, pos)
        pos = (pos + 3) // 4 * 4
        map_off = pos
        if string_data_last:
            # the string data section is placed AFTER the map list, so that the last string ends exactly at end of file
            n_entries = 2 + sum(1 for n in (n_s, n_t, n_p, n_f, n_m, n_c) if n) + sum(1 for t in order if S[t].items)
            pos = map_off + 4 + 12 * n_entries
            for i, it in enumerate(S[T_STRING_DATA].items):
                if i == 0:
                    sec_off[T_STRING_DATA] = pos
                item_off[(T_STRING_DATA, i)] = pos
                pos += len(it)

        # ---- emit ---------------------------------------------------------------------
        out = bytearray(b"\x00" * 0x70)
        for i in range(n_s):
            out += struct.pack("<I", item_off[(T_STRING_DATA, i)])
        for t in P.tlist:
            out += struct.pack("<I", P.sidx[t])
        for (ret, params) in P.plist:
            sh = shorty_of(ret) + "".join(shorty_of(p) for p in params)
            tl = proto_tl[(ret, params)]
            out += struct.pack("<III", P.sidx[sh], P.tidx[ret], item_off[(T_TYPE_LIST, tl)] if tl is not None else 0)
        for (c, n, t) in P.flist:
            out += struct.pack("<HHI", P.tidx[c], P.tidx[t], P.sidx[n])
        for (c, n, r, ps) in P.mlist:
            out += struct.pack("<HHI", P.tidx[c], P.pidx[(r, ps)], P.sidx[n])
        for ci, (c, rec) in enumerate(zip(dex.classes, cls_rec)):
            out += struct.pack("<8I", P.tidx[c.name], c.access,
                               P.tidx[c.superclass] if c.superclass else NO_INDEX,
                               item_off[(T_TYPE_LIST, rec["interfaces"])] if rec["interfaces"] is not None else 0,
                               P.sidx[c.source] if c.source is not None else NO_INDEX,
                               item_off[(T_ANN_DIR, rec["anndir"])] if rec["anndir"] is not None else 0,
                               item_off[(T_CLASS_DATA, cd_index[ci])] if cd_index[ci] is not None else 0,
                               item_off[(T_ENC_ARRAY, rec["static_values"])] if rec["static_values"] is not None else 0)
        assert len(out) == data_off
        # patch debug_info_off into code items
        code_dbg = {}
        for rec in cls_rec:
            for (cidx, dbg) in rec["code_idx"].values():
                code_dbg[cidx] = dbg
        for typ in order:
            sec = S[typ]
            if typ == T_STRING_DATA and string_data_last:
                continue
            for i, it in enumerate(sec.items):
                o = item_off[(typ, i)]
                out += b"\x00" * (o - len(out))
                if isinstance(it, bytes):
                    if typ == T_CODE and code_dbg.get(i) is not None:
                        it = it[:8] + struct.pack("<I", item_off[(T_DEBUG_INFO, code_dbg[i])]) + it[12:]
                    out += it
                elif it[0] == "set":
                    out += struct.pack("<I", len(it[1])) + b"".join(struct.pack("<I", item_off[(T_ANN_ITEM, a)]) for a in it[1])
                else:
                    _, cs, fa, ma = it
                    out += struct.pack("<4I", item_off[(T_ANN_SET, cs)] if cs is not None else 0, len(fa), len(ma), 0)
                    for idx, st in fa + ma:
                        out += struct.pack("<II", idx, item_off[(T_ANN_SET, st)])
        out += b"\x00" * (map_off - len(out))
        entries = [(T_HEADER, 1, 0)]
        for typ, n, o in ((T_STRING_ID, n_s, o_s), (T_TYPE_ID, n_t, o_t), (T_PROTO_ID, n_p, o_p), (T_FIELD_ID, n_f, o_f),
                          (T_METHOD_ID, n_m, o_m), (T_CLASS_DEF, n_c, o_c)):
            if n:
                entries.append((typ, n, o))
        for typ in order:
            if S[typ].items:
                entries.append((typ, len(S[typ].items), sec_off[typ]))
        entries.append((T_MAP_LIST, 1, map_off))
        entries.sort(key=lambda e: e[2])
        if map_order is not None:
            assert sorted(map_order) == list(range(len(entries))), (map_order, len(entries))
            entries = [entries[i] for i in map_order]
        out += struct.pack("<I", len(entries))
        for typ, n, o in entries:
            out += struct.pack("<HHII", typ, 0, n, o)
        if string_data_last:
            for i, it in enumerate(S[T_STRING_DATA].items):
                assert len(out) == item_off[(T_STRING_DATA, i)]
                out += it
        file_size = len(out)
        hdr = struct.pack("<8sI20sIIIIIIIIIIIIIIIIIIII", b"dex\n" + dex.version + b"\x00", 0, b"\x00" * 20, file_size, 0x70,
                          0x12345678, 0, 0, map_off, n_s, o_s if n_s else 0, n_t, o_t if n_t else 0, n_p, o_p if n_p else 0,
                          n_f, o_f if n_f else 0, n_m, o_m if n_m else 0, n_c, o_c if n_c else 0,
                          file_size - data_off, data_off)
        assert len(hdr) == 0x70
        out[:0x70] = hdr
        layout = {"map_entries": entries, "item_off": item_off, "sec_off": sec_off, "pools": P, "map_off": map_off,
                  "data_off": data_off, "n_map": len(entries)}
        out = bytes(fix_checksums(out)) if fix_header else bytes(out)
        return (out, layout) if return_layout else out


def fix_checksums(b):
    b = bytearray(b)
    b[12:32] = hashlib.sha1(bytes(b[32:])).digest()
    b[8:12] = struct.pack("<I", zlib.adler32(bytes(b[12:])) & 0xffffffff)
    return b


def n_map_entries(dex):
    return build(dex, return_layout=True)[1]["n_map"]
