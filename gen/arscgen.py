"""Independent resources.arsc writer: resource model -> bytes.

Written from the definitions in Android's frameworks/base/libs/androidfw/include/androidfw/ResourceTypes.h
(ResChunk_header, ResStringPool_header, ResTable_header, ResTable_package, ResTable_typeSpec, ResTable_type,
ResTable_config, ResTable_entry / ResTable_map_entry / compact entry, ResTable_sparseTypeEntry, Res_value) and the
layout aapt2's TableFlattener produces; it does not import androguard (only the self test at the bottom does).

Model
-----
Table(packages=[Package], utf8=True, pool_prefix=[...])
Package(id, name, types=[Type], type_utf8, key_utf8)
Type(name, entries=[Entry | None, ...], enc='dense'|'off16'|'sparse' | {Cfg: enc}, trim=False, layout='index')
      layout: order in which the entry structures are placed inside the entry area of every type chunk:
      'index' (what aapt writes), 'reversed', 'rotated' (first present entry last).  The offset array keeps its
      meaning (slot i -> offset of entry i), so all layouts describe the same table (ResourceTypes.h only requires
      each offset to point inside the chunk).
      entries == []  ->  the name only occupies a slot in the type string pool (type id gap, no typeSpec chunk)
      a None entry   ->  hole in every configuration (NO_ENTRY / absent from the sparse index)
Entry(key, flags (FLAG_PUBLIC | FLAG_WEAK), values={Cfg: Plain(v) | Compact(v) | Complex(parent, [(name, v), ...])})
      an entry is a hole in every configuration that is not a key of `values`
value v: ("str", text)  -> Res_value TYPE_STRING, data = index into the global value string pool
         ("raw", dataType, data)
Cfg(lang, region, density, sdk, mcc, mnc, orientation, size)  -> ResTable_config (first `size` bytes of the 64 byte struct)

Resource id of an entry = package id << 24 | type id << 16 | entry index; type id = 1 + position of the type in
Package.types (the type string pool is 1-based indexed by type id, typeIdOffset = 0).

Layout choices (all inside what ResourceTypes.h allows, and what aapt2 emits):
  * chunks: table header, global string pool, then per package: header(288) + type-string pool + key-string pool
    directly behind the header, then per type one typeSpec chunk followed by one type chunk per configuration
  * a type chunk = header(20 + config.size), offset array directly behind the config, padding to 4, entries at
    entriesStart in index order
  * string pools: offsets array directly behind the 28 byte header, strings, zero padding to 4, no styles
"""
import struct

# ---- chunk types -------------------------------------------------------------------------------------------------
RES_STRING_POOL_TYPE = 0x0001
RES_TABLE_TYPE = 0x0002
RES_TABLE_PACKAGE_TYPE = 0x0200
RES_TABLE_TYPE_TYPE = 0x0201
RES_TABLE_TYPE_SPEC_TYPE = 0x0202

# ---- Res_value data types ----------------------------------------------------------------------------------------
TYPE_NULL = 0x00
TYPE_REFERENCE = 0x01
TYPE_ATTRIBUTE = 0x02
TYPE_STRING = 0x03
TYPE_FLOAT = 0x04
TYPE_DIMENSION = 0x05
TYPE_FRACTION = 0x06
TYPE_INT_DEC = 0x10
TYPE_INT_HEX = 0x11
TYPE_INT_BOOLEAN = 0x12
TYPE_INT_COLOR_ARGB8 = 0x1C
TYPE_INT_COLOR_RGB8 = 0x1D

# ---- ResTable_entry flags ----------------------------------------------------------------------------------------
FLAG_COMPLEX = 0x0001
FLAG_PUBLIC = 0x0002
FLAG_WEAK = 0x0004
FLAG_COMPACT = 0x0008

# ---- ResTable_type flags -----------------------------------------------------------------------------------------
FLAG_SPARSE = 0x01
FLAG_OFFSET16 = 0x02
NO_ENTRY = 0xFFFFFFFF
NO_ENTRY16 = 0xFFFF

# ---- ResTable_typeSpec / ResTable_config change bits -------------------------------------------------------------
CONFIG_MCC = 0x0001
CONFIG_MNC = 0x0002
CONFIG_LOCALE = 0x0004
CONFIG_ORIENTATION = 0x0080
CONFIG_DENSITY = 0x0100
CONFIG_VERSION = 0x0400
SPEC_PUBLIC = 0x40000000

UTF8_FLAG = 1 << 8


# ---- values ------------------------------------------------------------------------------------------------------
def S(text):
    return ("str", text)


def RAW(dtype, data):
    return ("raw", dtype, data & 0xFFFFFFFF)


def I(n):
    return RAW(TYPE_INT_DEC, n)


def H(n):
    return RAW(TYPE_INT_HEX, n)


def B(b):
    return RAW(TYPE_INT_BOOLEAN, 0xFFFFFFFF if b else 0)


def C(argb):
    return RAW(TYPE_INT_COLOR_ARGB8, argb)


def D(mantissa, unit, radix=0):
    """TYPE_DIMENSION: 24 bit mantissa << 8 | radix << 4 | unit (0 px, 1 dp, 2 sp, 3 pt, 4 in, 5 mm)."""
    return RAW(TYPE_DIMENSION, ((mantissa & 0xFFFFFF) << 8) | ((radix & 3) << 4) | (unit & 0xF))


def R(resid):
    return RAW(TYPE_REFERENCE, resid)


class Plain:
    kind = "plain"
    __slots__ = ("value",)

    def __init__(self, value):
        self.value = value

    def __repr__(self):
        return "Plain(%r)" % (self.value,)


class Compact:
    kind = "compact"
    __slots__ = ("value",)

    def __init__(self, value):
        self.value = value

    def __repr__(self):
        return "Compact(%r)" % (self.value,)


class Complex:
    kind = "complex"
    __slots__ = ("parent", "items")

    def __init__(self, items, parent=0):
        self.parent = parent
        self.items = list(items)        # [(name u32, value)]

    def __repr__(self):
        return "Complex(%r, parent=0x%x)" % (self.items, self.parent)


class Cfg:
    """ResTable_config.  Only the fields below can be non-zero; everything else in the 64 byte struct is zero."""
    __slots__ = ("lang", "region", "density", "sdk", "mcc", "mnc", "orientation", "size")

    def __init__(self, lang="", region="", density=0, sdk=0, mcc=0, mnc=0, orientation=0, size=64):
        self.lang, self.region, self.density, self.sdk = lang, region, density, sdk
        self.mcc, self.mnc, self.orientation, self.size = mcc, mnc, orientation, size

    def ident(self):
        """Identity of the configuration (the size of the struct is an encoding detail, not part of it)."""
        return (self.lang, self.region, self.density, self.sdk, self.mcc, self.mnc, self.orientation)

    def __eq__(self, o):
        return isinstance(o, Cfg) and self.ident() == o.ident()

    def __hash__(self):
        return hash(self.ident())

    def __repr__(self):
        return "Cfg(%s)" % (self.qualifier() or "default")

    def qualifier(self):
        q = []
        if self.mcc:
            q.append("mcc%d" % self.mcc)
        if self.mnc:
            q.append("mnc%d" % self.mnc)
        if self.lang:
            q.append(self.lang)
        if self.region:
            q.append("r" + self.region)
        if self.orientation:
            q.append({1: "port", 2: "land", 3: "square"}[self.orientation])
        if self.density:
            q.append({120: "ldpi", 160: "mdpi", 240: "hdpi", 320: "xhdpi"}.get(self.density, "%ddpi" % self.density))
        if self.sdk:
            q.append("v%d" % self.sdk)
        return "-".join(q)

    def locale_string(self):
        """'' for any locale, 'de', 'de-rDE' (the resource directory spelling)."""
        if not self.lang:
            return ""
        return self.lang + ("-r" + self.region if self.region else "")

    @staticmethod
    def _pack_lr(s, base):
        """packLanguageOrRegion of ResourceTypes.cpp: 2 ASCII bytes, or 3 letters packed into 15 bits + bit 7."""
        if not s:
            return b"\0\0"
        if len(s) == 2:
            return s.encode("ascii")
        assert len(s) == 3
        first, second, third = [(ord(c) - base) & 0x7F for c in s]
        return bytes([0x80 | (third << 2) | (second >> 3), ((second << 5) | first) & 0xFF])

    def words(self):
        """The nine 32-bit words imsi, locale, screenType, input, screenSize, version, screenConfig, screenSizeDp,
        screenConfig2 as little-endian integers (what a reader of the struct sees)."""
        b = self.pack64()
        w = struct.unpack_from("<9I", b, 4)
        sc2 = struct.unpack_from("<I", b, 48)[0]
        return w[:8] + (sc2,)

    def pack64(self):
        b = struct.pack("<I", self.size)
        b += struct.pack("<HH", self.mcc, self.mnc)
        b += self._pack_lr(self.lang, ord("a")) + self._pack_lr(self.region, ord("0"))
        b += struct.pack("<BBH", self.orientation, 0, self.density)
        b += struct.pack("<BBBB", 0, 0, 0, 0)            # keyboard, navigation, inputFlags, inputPad0
        b += struct.pack("<HH", 0, 0)                    # screenWidth, screenHeight
        b += struct.pack("<HH", self.sdk, 0)             # sdkVersion, minorVersion
        b += struct.pack("<BBH", 0, 0, 0)                # screenLayout, uiMode, smallestScreenWidthDp
        b += struct.pack("<HH", 0, 0)                    # screenWidthDp, screenHeightDp
        b += b"\0" * 4                                   # localeScript
        b += b"\0" * 8                                   # localeVariant
        b += struct.pack("<BBH", 0, 0, 0)                # screenLayout2, colorMode, screenConfigPad2
        b += b"\0"                                       # localeScriptWasComputed
        b += b"\0" * 8                                   # localeNumberingSystem
        b += b"\0" * (64 - len(b))
        assert len(b) == 64
        return b

    def pack(self):
        assert 28 <= self.size <= 64 and self.size % 4 == 0
        b = self.pack64()
        assert not any(b[self.size:]), "configuration does not fit into %d bytes" % self.size
        return b[:self.size]

    def diff(self, o):
        d = 0
        if self.mcc != o.mcc:
            d |= CONFIG_MCC
        if self.mnc != o.mnc:
            d |= CONFIG_MNC
        if (self.lang, self.region) != (o.lang, o.region):
            d |= CONFIG_LOCALE
        if self.orientation != o.orientation:
            d |= CONFIG_ORIENTATION
        if self.density != o.density:
            d |= CONFIG_DENSITY
        if self.sdk != o.sdk:
            d |= CONFIG_VERSION
        return d


class Entry:
    __slots__ = ("key", "flags", "values")

    def __init__(self, key, values, flags=0):
        self.key, self.flags = key, flags
        self.values = dict(values)       # Cfg -> Plain | Compact | Complex   (insertion ordered)

    def __repr__(self):
        return "Entry(%r, flags=%d, %r)" % (self.key, self.flags, self.values)


class Type:
    """entry_at: {entry index: byte offset inside the entry area} -- the entry area is zero-padded so that this entry
    starts exactly there (to reach the large end of the offset fields without tens of thousands of real entries)."""
    __slots__ = ("name", "entries", "enc", "trim", "layout", "entry_at")

    def __init__(self, name, entries=(), enc="dense", trim=False, layout="index", entry_at=None):
        self.name, self.entries, self.enc, self.trim, self.layout = name, list(entries), enc, trim, layout
        self.entry_at = dict(entry_at or {})

    def configs(self):
        """Configurations in first-appearance order."""
        out = []
        for e in self.entries:
            if e is not None:
                for c in e.values:
                    if c not in out:
                        out.append(c)
        return out

    def enc_of(self, cfg):
        return self.enc[cfg] if isinstance(self.enc, dict) else self.enc


class Package:
    """chunk_order: 'grouped' (typeSpec, then its type chunks, type after type: what aapt writes), 'specs-first' (all typeSpec
    chunks, then all type chunks), 'interleaved' (all typeSpecs, then the type chunks round-robin over the types).  The
    runtime only needs a typeSpec before the first type chunk of the same id.
    cfg_order: 'first' (configurations in order of first appearance), 'reversed', 'rotated' -- order of the type chunks of
    one type."""
    __slots__ = ("id", "name", "types", "type_utf8", "key_utf8", "chunk_order", "cfg_order")

    def __init__(self, id, name, types, type_utf8=False, key_utf8=True, chunk_order="grouped", cfg_order="first"):
        self.id, self.name, self.types = id, name, list(types)
        self.type_utf8, self.key_utf8 = type_utf8, key_utf8
        self.chunk_order, self.cfg_order = chunk_order, cfg_order


class Table:
    __slots__ = ("packages", "utf8", "pool_prefix")

    def __init__(self, packages, utf8=True, pool_prefix=()):
        self.packages, self.utf8, self.pool_prefix = list(packages), utf8, list(pool_prefix)

    def resid(self, pi, ti, ei):
        return (self.packages[pi].id << 24) | ((ti + 1) << 16) | ei

    def iter_entries(self):
        """yield (resid, package, type, entry) for every non-hole entry."""
        for p in self.packages:
            for ti, t in enumerate(p.types):
                for ei, e in enumerate(t.entries):
                    if e is not None and e.values:
                        yield (p.id << 24) | ((ti + 1) << 16) | ei, p, t, e


# ---- string pool -------------------------------------------------------------------------------------------------
def _len8(n):
    assert n < 0x8000
    return bytes([n]) if n < 0x80 else bytes([0x80 | (n >> 8), n & 0xFF])


def _len16(n):
    assert n < 0x80000000
    return struct.pack("<H", n) if n < 0x8000 else struct.pack("<HH", 0x8000 | (n >> 16), n & 0xFFFF)


def string_pool(strings, utf8):
    """ResStringPool chunk without styles."""
    data = bytearray()
    offs = []
    for s in strings:
        offs.append(len(data))
        u16 = s.encode("utf-16-le")
        if utf8:
            u8 = s.encode("utf-8")            # BMP only in the generated alphabets (no supplementary planes)
            data += _len8(len(u16) // 2) + _len8(len(u8)) + u8 + b"\0"
        else:
            data += _len16(len(u16) // 2) + u16 + b"\0\0"
    data += b"\0" * (-len(data) % 4)
    strings_start = 28 + 4 * len(strings)
    body = struct.pack("<IIIII", len(strings), 0, UTF8_FLAG if utf8 else 0, strings_start, 0)
    body += b"".join(struct.pack("<I", o) for o in offs) + bytes(data)
    return struct.pack("<HHI", RES_STRING_POOL_TYPE, 28, 8 + len(body)) + body


class _Pool:
    def __init__(self, prefix=()):
        self.strings = list(prefix)
        self.index = {}
        for i, s in enumerate(self.strings):
            self.index.setdefault(s, i)

    def ref(self, s):
        i = self.index.get(s)
        if i is None:
            i = self.index[s] = len(self.strings)
            self.strings.append(s)
        return i


# ---- entries -----------------------------------------------------------------------------------------------------
def _res_value(v, pool):
    if v[0] == "str":
        dtype, data = TYPE_STRING, pool.ref(v[1])
    else:
        dtype, data = v[1], v[2]
    return dtype, data & 0xFFFFFFFF


def _entry_bytes(ev, flags, key_idx, pool):
    if ev.kind == "compact":
        dtype, data = _res_value(ev.value, pool)
        assert key_idx <= 0xFFFF
        return struct.pack("<HHI", key_idx, FLAG_COMPACT | (flags & 0xFF) | (dtype << 8), data)
    if ev.kind == "plain":
        dtype, data = _res_value(ev.value, pool)
        return struct.pack("<HHI", 8, flags, key_idx) + struct.pack("<HBBI", 8, 0, dtype, data)
    b = struct.pack("<HHI", 16, flags | FLAG_COMPLEX, key_idx) + struct.pack("<II", ev.parent, len(ev.items))
    for name, v in ev.items:
        dtype, data = _res_value(v, pool)
        b += struct.pack("<I", name) + struct.pack("<HBBI", 8, 0, dtype, data)
    return b


def type_chunk(type_id, cfg, enc, slots, layout="index", entry_at=None):
    """slots: list (index = entry index) of entry bytes or None (hole); layout: placement order in the entry area."""
    cfgb = cfg.pack()
    header_size = 8 + 12 + len(cfgb)
    blob = bytearray()
    offsets = [None] * len(slots)
    order = [i for i, s in enumerate(slots) if s is not None]
    if layout == "reversed":
        order.reverse()
    elif layout == "rotated":
        order = order[1:] + order[:1]
    elif layout != "index":
        raise ValueError(layout)
    for i in order:
        if entry_at and i in entry_at:
            assert entry_at[i] % 4 == 0 and entry_at[i] >= len(blob), "entry_at must not move an entry backwards"
            blob += b"\0" * (entry_at[i] - len(blob))
        assert len(blob) % 4 == 0
        offsets[i] = len(blob)
        blob += slots[i]
    if enc == "dense":
        flags = 0
        arr = b"".join(struct.pack("<I", NO_ENTRY if o is None else o) for o in offsets)
        count = len(offsets)
    elif enc == "off16":
        flags = FLAG_OFFSET16
        arr = b"".join(struct.pack("<H", NO_ENTRY16 if o is None else o // 4) for o in offsets)
        assert all(o is None or o // 4 < NO_ENTRY16 for o in offsets)      # 0xFFFF means 'no entry' here
        count = len(offsets)
    elif enc == "sparse":
        flags = FLAG_SPARSE
        present = [(i, o) for i, o in enumerate(offsets) if o is not None]
        assert all(o // 4 <= 0xFFFF for _i, o in present)                      # no 'no entry' marker: 0xFFFF is an offset
        arr = b"".join(struct.pack("<HH", i, o // 4) for i, o in present)      # sorted by idx
        count = len(present)
    else:
        raise ValueError(enc)
    arr += b"\0" * (-len(arr) % 4)
    entries_start = header_size + len(arr)
    body = struct.pack("<BBHII", type_id, flags, 0, count, entries_start) + cfgb + arr + bytes(blob)
    return struct.pack("<HHI", RES_TABLE_TYPE_TYPE, header_size, 8 + len(body)) + body


def type_spec_chunk(type_id, spec_flags):
    body = struct.pack("<BBHI", type_id, 0, 0, len(spec_flags)) + b"".join(struct.pack("<I", f) for f in spec_flags)
    return struct.pack("<HHI", RES_TABLE_TYPE_SPEC_TYPE, 16, 8 + len(body)) + body


def _spec_flags(entry):
    if entry is None:
        return 0
    cfgs = list(entry.values)
    f = 0
    for i, a in enumerate(cfgs):
        for b in cfgs[i + 1:]:
            f |= a.diff(b)
    if entry.flags & FLAG_PUBLIC:
        f |= SPEC_PUBLIC
    return f


def package_chunk(pkg, pool):
    type_names = [t.name for t in pkg.types]
    keys = _Pool()
    specs, per_type = [], []
    for ti, t in enumerate(pkg.types):
        if not t.entries:
            continue
        type_id = ti + 1
        specs.append(type_spec_chunk(type_id, [_spec_flags(e) for e in t.entries]))
        chunks = []
        per_type.append(chunks)
        cfgs = t.configs()
        if isinstance(pkg.cfg_order, (list, tuple)):
            cfgs = [cfgs[i] for i in pkg.cfg_order if i < len(cfgs)] + cfgs[len(pkg.cfg_order):]
        elif pkg.cfg_order == "reversed":
            cfgs = cfgs[::-1]
        elif pkg.cfg_order == "rotated":
            cfgs = cfgs[1:] + cfgs[:1]
        for cfg in cfgs:
            slots = []
            for e in t.entries:
                if e is None or cfg not in e.values:
                    slots.append(None)
                else:
                    slots.append(_entry_bytes(e.values[cfg], e.flags, keys.ref(e.key), pool))
            if t.trim:
                while slots and slots[-1] is None:
                    slots.pop()
            chunks.append(type_chunk(type_id, cfg, t.enc_of(cfg), slots, t.layout, t.entry_at))
    if pkg.chunk_order == "grouped":
        chunks = [c for sp, cs in zip(specs, per_type) for c in [sp] + cs]
    elif pkg.chunk_order == "specs-first":
        chunks = specs + [c for cs in per_type for c in cs]
    elif pkg.chunk_order == "interleaved":
        chunks = list(specs)
        for k in range(max([len(cs) for cs in per_type] or [0])):
            chunks += [cs[k] for cs in per_type if k < len(cs)]
    else:
        raise ValueError(pkg.chunk_order)
    tsp = string_pool(type_names, pkg.type_utf8)
    ksp = string_pool(keys.strings, pkg.key_utf8)
    name16 = pkg.name.encode("utf-16-le")
    assert len(name16) < 256
    name16 += b"\0" * (256 - len(name16))
    header_size = 288
    body = struct.pack("<I", pkg.id) + name16
    body += struct.pack("<IIIII", header_size, len(type_names), header_size + len(tsp), len(keys.strings), 0)
    assert 8 + len(body) == header_size
    body += tsp + ksp + b"".join(chunks)
    return struct.pack("<HHI", RES_TABLE_PACKAGE_TYPE, header_size, 8 + len(body)) + body


def build(table):
    """Serialise a Table.  Returns (bytes, value_pool_strings)."""
    pool = _Pool(table.pool_prefix)
    pkgs = [package_chunk(p, pool) for p in table.packages]
    body = struct.pack("<I", len(pkgs)) + string_pool(pool.strings, table.utf8) + b"".join(pkgs)
    return struct.pack("<HHI", RES_TABLE_TYPE, 12, 8 + len(body)) + body, list(pool.strings)


def serialise(table):
    return build(table)[0]


# =====================================================================================================================
# Self test (the only part that touches androguard): extract a model from a shipped table through androguard's object
# tree, re-serialise it with the writer above, and require (a) every type chunk to be byte-identical to the shipped
# one when written with the shipped pool indices, (b) androguard to report the same content for the rebuilt file.
# Usage: /venv/bin/python -m gen.arscgen [apk-or-arsc ...]
# =====================================================================================================================
def _cfg_from_androguard(c):
    def lr(lo, hi, base):
        if lo & 0x80:
            first = hi & 0x1F
            second = ((hi & 0xE0) >> 5) + ((lo & 0x03) << 3)
            third = (lo & 0x7C) >> 2
            return "".join(chr(x + base) for x in (first, second, third))
        return (chr(lo) if lo else "") + (chr(hi) if hi else "")
    loc = c.locale
    cfg = Cfg(lang=lr(loc & 0xFF, (loc >> 8) & 0xFF, ord("a")), region=lr((loc >> 16) & 0xFF, (loc >> 24) & 0xFF, ord("0")),
              density=(c.screenType >> 16) & 0xFFFF, sdk=c.version & 0xFFFF, mcc=c.imsi & 0xFFFF, mnc=(c.imsi >> 16) & 0xFFFF,
              orientation=c.screenType & 0xFF, size=c.size)
    return cfg, cfg.words() == c._get_tuple()


def _selftest(path):
    import io
    import zipfile
    from androguard.core import axml
    raw = open(path, "rb").read()
    if raw[:2] == b"PK":
        raw = zipfile.ZipFile(io.BytesIO(raw)).read("resources.arsc")
    a = axml.ARSCParser(raw)
    a._analyse()
    main = list(a.stringpool_main)
    stats = {"chunks": 0, "chunks_identical": 0, "chunks_skipped_cfg": 0, "entries": 0}
    packages = []
    for pname, items in a.packages.items():
        pkg_hdr, tsp, ksp = items[0], items[1], items[2]
        tnames = list(tsp)
        knames = list(ksp)
        types = [Type(n) for n in tnames]
        spec_counts = {}
        i = 3
        while i < len(items):
            h = items[i]
            if isinstance(h, axml.ARSCHeader) and h.type == RES_TABLE_TYPE_SPEC_TYPE:
                spec = items[i + 1]
                spec_counts[spec.id] = spec.entryCount
                i += 2
            elif isinstance(h, axml.ARSCHeader) and h.type == RES_TABLE_TYPE_TYPE:
                rt, offs = items[i + 1], items[i + 2]
                ates = items[i + 3:i + 3 + len(offs)]
                i += 3 + len(offs)
                cfg, exact = _cfg_from_androguard(rt.config)
                t = types[rt.id - 1]
                n = max(spec_counts.get(rt.id, 0), rt.entryCount)
                while len(t.entries) < n:
                    t.entries.append(None)
                enc = "sparse" if rt.flags & FLAG_SPARSE else "off16" if rt.flags & FLAG_OFFSET16 else "dense"
                if not isinstance(t.enc, dict):
                    t.enc = {}
                t.enc[cfg] = enc
                slots = [None] * rt.entryCount
                for ate in ates:
                    idx = ate.mResId & 0xFFFF

                    def val(r):
                        return S(main[r.data]) if r.data_type == TYPE_STRING and r.data < len(main) else RAW(r.data_type, r.data)

                    def rawval(r):
                        return RAW(r.data_type, r.data)
                    if ate.is_complex():
                        ev = Complex([(nm, val(r)) for nm, r in ate.item.items], ate.item.id_parent)
                        evraw = Complex([(nm, rawval(r)) for nm, r in ate.item.items], ate.item.id_parent)
                        kidx = ate.index
                    elif ate.is_compact():
                        ev = evraw = Compact(RAW(ate.datatype, ate.data))
                        kidx = ate.key
                    else:
                        ev, evraw = Plain(val(ate.key)), Plain(rawval(ate.key))
                        kidx = ate.index
                    fl = ate.flags & (FLAG_PUBLIC | FLAG_WEAK)
                    if t.entries[idx] is None:
                        t.entries[idx] = Entry(knames[kidx], {}, fl)
                    t.entries[idx].values[cfg] = ev
                    slots[idx] = _entry_bytes(evraw, fl, kidx, None)
                    stats["entries"] += 1
                stats["chunks"] += 1
                if not exact:
                    stats["chunks_skipped_cfg"] += 1      # configuration uses fields outside the model
                else:
                    mine = type_chunk(rt.id, cfg, enc, slots)
                    theirs = raw[h.start:h.end]
                    if mine == theirs:
                        stats["chunks_identical"] += 1
            else:
                i += 1
        packages.append(Package(pkg_hdr.id, pname, types, type_utf8=tsp.m_isUTF8, key_utf8=ksp.m_isUTF8))
    table = Table(packages, utf8=a.stringpool_main.m_isUTF8)
    # drop configurations the model cannot express exactly (would merge distinct configurations)
    rebuilt = serialise(table)
    b = axml.ARSCParser(rebuilt)
    b._analyse()

    def content(p):
        out = {}
        for rid, per in p.resource_values.items():
            for cfg, ate in per.items():
                k = (rid, cfg._get_tuple()[:3] + (cfg.version,))
                if ate.is_complex():
                    v = ("complex", ate.item.id_parent, tuple((nm, r.data_type, r.format_value()) for nm, r in ate.item.items))
                elif ate.is_compact():
                    v = ("compact", ate.datatype, ate.data)
                else:
                    v = ("plain", ate.key.data_type, ate.key.format_value())
                out[k] = (ate.get_value(), ate.flags & 6, v)
        return out
    ca, cb = content(a), content(b)
    same = ca == cb
    listing = all(a.get_types(p, l) == b.get_types(p, l) for p in a.get_packages_names() for l in a.get_locales(p))
    stats.update(resources=len(ca), same_content=same, same_listing=listing and a.get_packages_names() == b.get_packages_names(),
                 size_in=len(raw), size_out=len(rebuilt))
    return stats


if __name__ == "__main__":
    import sys
    for p in sys.argv[1:]:
        print(p, _selftest(p))
