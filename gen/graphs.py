"""Enumerator of small rooted digraphs (shared by C18, C19, C20).

A graph on n labelled nodes 0..n-1 (entry = 0) is a bit mask over the n*n ordered pairs: bit (u*n + v) set <=> edge
u -> v (self-loops allowed).  'Rooted' = every node reachable from node 0.  Everything here is plain integer code:
no androguard import, no randomness.

  rooted_masks(n, lo, hi)     every rooted edge-set mask in [lo, hi)   (whole space: lo=0, hi=1 << n*n)
  rooted_tri(n)               every rooted graph with each ordered pair in {absent, normal, catch}
  rows(n, mask)               successor bit-rows  [row_0, ..., row_{n-1}]
  edge_list(n, mask)          [(u, v), ...] ascending (the default insertion order)
  orderings(n, mask)          every successor insertion order: product over nodes of the permutations of its successors
  closure(n, rows)            reach[v] = bit set of nodes reachable from v by >= 1 edge
  shape(n, rows, doms)        'dag' | 'reducible' | 'irreducible'
"""
import itertools


def rows(n, mask):
    full = (1 << n) - 1
    return [(mask >> (u * n)) & full for u in range(n)]


def reach_from(n, rw, start, removed=-1):
    """Bit set of nodes reachable from start (start included) never entering node `removed`."""
    if start == removed:
        return 0
    ban = ~(1 << removed) if removed >= 0 else -1
    seen = 1 << start
    todo = seen
    while todo:
        low = todo & -todo
        u = low.bit_length() - 1
        todo ^= low
        new = rw[u] & ban & ~seen
        seen |= new
        todo |= new
    return seen


def rooted_masks(n, lo=0, hi=None):
    if hi is None:
        hi = 1 << (n * n)
    full = (1 << n) - 1
    for mask in range(lo, hi):
        rw = [(mask >> (u * n)) & full for u in range(n)]
        if reach_from(n, rw, 0) == full:
            yield mask


def edge_list(n, mask):
    return [(u, v) for u in range(n) for v in range(n) if (mask >> (u * n + v)) & 1]


def rooted_tri(n):
    """Yields lists [(u, v, kind)] (kind 'n' normal / 'c' catch), pairs ascending, union graph rooted at 0."""
    pairs = [(u, v) for u in range(n) for v in range(n)]
    full = (1 << n) - 1
    for states in itertools.product((0, 1, 2), repeat=len(pairs)):
        rw = [0] * n
        for (u, v), s in zip(pairs, states):
            if s:
                rw[u] |= 1 << v
        if reach_from(n, rw, 0) != full:
            continue
        yield [(u, v, "n" if s == 1 else "c") for (u, v), s in zip(pairs, states) if s]


def orderings(n, mask):
    """Every insertion order of the successor lists; yields edge lists [(u, v)] (grouped by source, ascending source)."""
    per_node = []
    for u in range(n):
        sucs = [v for v in range(n) if (mask >> (u * n + v)) & 1]
        per_node.append(list(itertools.permutations(sucs)))
    for combo in itertools.product(*per_node):
        yield [(u, v) for u, perm in enumerate(combo) for v in perm]


def rows_of_edges(n, edges):
    rw = [0] * n
    for e in edges:
        rw[e[0]] |= 1 << e[1]
    return rw


def closure(n, rw):
    """reach[v]: nodes reachable from v by a path of at least one edge."""
    reach = list(rw)
    for k in range(n):
        bk = 1 << k
        rk = reach[k]
        for i in range(n):
            if reach[i] & bk:
                reach[i] |= rk
    # one pass of Warshall in this order is complete (k outer loop)
    return reach


def shape(n, rw, dom_sets):
    """dom_sets[v] = bit set of the dominators of v (v included).  Reducible <=> the graph minus its back edges
    (u -> v with v dominating u) is acyclic."""
    reach = closure(n, rw)
    if not any(reach[v] >> v & 1 for v in range(n)):
        return "dag"
    fw = [0] * n
    for u in range(n):
        r = rw[u]
        while r:
            low = r & -r
            v = low.bit_length() - 1
            r ^= low
            if not (dom_sets[u] >> v) & 1:
                fw[u] |= low
    reach = closure(n, fw)
    if any(reach[v] >> v & 1 for v in range(n)):
        return "irreducible"
    return "reducible"


# ---------------------------------------------------------------------------------------------------------------
# structurally defined sub-spaces of larger graphs (C18 quick tier)
def sparse_rooted(n, max_edges, part=0, nparts=1):
    """Every rooted digraph on n labelled nodes (entry 0, self-loops allowed) with at most max_edges edges, as edge
    lists in ascending order.  Enumerated as all subsets of the n*n ordered pairs of size n-1..max_edges."""
    import itertools as it
    pairs = [(u, v) for u in range(n) for v in range(n)]
    full = (1 << n) - 1
    i = 0
    for e in range(n - 1, max_edges + 1):
        for combo in it.combinations(range(n * n), e):
            i += 1
            if i % nparts != part:
                continue
            rw = [0] * n
            for c in combo:
                rw[c // n] |= 1 << (c % n)
            if not rw[0] & ~1:
                continue
            if reach_from(n, rw, 0) == full:
                yield [pairs[c] for c in combo]


def dfs_trees(n):
    """Every ordered rooted tree on n nodes labelled in depth-first preorder, as a parent list (parent[0] = None):
    parent[i] must lie on the path root..i-1 (Catalan(n-1) trees)."""
    def rec(parent):
        i = len(parent)
        if i == n:
            yield list(parent)
            return
        p = i - 1
        while p is not None:
            yield from rec(parent + [p])
            p = parent[p]
    yield from rec([None])


def tree_plus(n, max_extra, tree_index=None):
    """Every graph 'DFS spanning tree + k <= max_extra further edges': for every ordered tree of dfs_trees(n) (or only
    the tree_index-th), every set of at most max_extra ordered pairs that are not tree edges (self-loops, back,
    forward and cross pairs alike).  Edge lists: tree edges first (children in preorder), then the extra edges in
    ascending order -- the insertion order a depth-first search of the tree itself would meet them in.
    Yields (edges, number of extra edges)."""
    import itertools as it
    for ti, parent in enumerate(dfs_trees(n)):
        if tree_index is not None and ti != tree_index:
            continue
        tree = [(parent[i], i) for i in range(1, n)]
        tset = set(tree)
        others = [(u, v) for u in range(n) for v in range(n) if (u, v) not in tset]
        for k in range(0, max_extra + 1):
            for extra in it.combinations(others, k):
                yield tree + list(extra), k


# ---------------------------------------------------------------------------------------------------------------
# small core embedded in a long chain (C18/C19 'long-chain' family: size-gated code paths)
def expand_diamonds(k, edges):
    """Every core node v becomes in_v -> {l_v, r_v} -> out_v (indices 4v..4v+3); a core edge u -> v becomes
    out_u -> in_v.  Returns (4k, edges); entry stays index 0 (= in_0)."""
    out = []
    for v in range(k):
        out += [(4 * v, 4 * v + 1), (4 * v, 4 * v + 2), (4 * v + 1, 4 * v + 3), (4 * v + 2, 4 * v + 3)]
    out += [(4 * u + 3, 4 * v) for (u, v) in edges]
    return 4 * k, out


def long_chain(k, core_edges, mode, L, diamond=False):
    """Embeds a rooted core (nodes 0..k-1, entry 0) into a graph with a chain of L plain nodes.
      mode 'behind': entry = c_0 -> c_1 -> ... -> c_{L-1} -> core entry; nodes: chain 0..L-1, core L..L+K-1
      mode 'before': entry = core entry; EVERY core node -> t_0 -> t_1 -> ... -> t_{L-1}; nodes: core 0..K-1, tail K..
    Returns dict(n, edges, K, core_edges (expanded, core-local indices), core_off, chain_off)."""
    K, ce = (expand_diamonds(k, core_edges) if diamond else (k, list(core_edges)))
    if mode == "behind":
        edges = [(i, i + 1) for i in range(L - 1)] + [(L - 1, L)] + [(u + L, v + L) for (u, v) in ce]
        return {"n": L + K, "edges": edges, "K": K, "core_edges": ce, "core_off": L, "chain_off": 0, "mode": mode, "L": L}
    edges = list(ce) + [(u, K) for u in range(K)] + [(K + i, K + i + 1) for i in range(L - 1)]
    return {"n": K + L, "edges": edges, "K": K, "core_edges": ce, "core_off": 0, "chain_off": K, "mode": mode, "L": L}


def long_chain_idoms(lc, core_idoms):
    """Reference immediate dominators of a long_chain graph: chain node i <- i-1 (analytic), core from `core_idoms`
    ({v: idom or None} on core-local indices, computed by the removal definition on the small core)."""
    L, K, co, ch = lc["L"], lc["K"], lc["core_off"], lc["chain_off"]
    want = {}
    if lc["mode"] == "behind":
        want[0] = None
        for i in range(1, L):
            want[i] = i - 1
        for v, d in core_idoms.items():
            want[co + v] = (L - 1) if d is None else co + d
    else:
        for v, d in core_idoms.items():
            want[v] = d
        want[ch] = 0                      # every core node, the entry included, jumps to t_0
        for i in range(1, L):
            want[ch + i] = ch + i - 1
    return want


def long_cases(thorough, limit):
    """The 'long-chain' / 'big-fan' families as a deterministic list of case descriptors (each is also the witness).
    limit = sys.getrecursionlimit() once androguard.decompiler is imported (5000): L1 = limit//4 + 50, L2 = 2*L1.
      chain: core embedded 'behind' (entry -> chain of L -> core) or 'before' (every core node -> tail of L) a chain
      fan  : core whose entry additionally has L leaf successors (inserted after / before the core's own edges)
    quick   : chain: every rooted core on <= 3 nodes x {behind, before} x L1; every core on <= 2 nodes x {behind, before}
              x {plain, each node a diamond} x {L1, L2};  fan (leaves last, L1): every core on <= 3 nodes and every
              'ordered DFS tree + <= 2 extra edges' core on 5 nodes
    thorough: chain: cores on <= 3 nodes and rooted 4-node cores with <= 5 edges x both modes x plain/diamond x L1/L2,
              tree+<=2 cores on 5 nodes behind L1;  fan: both leaf positions, plus tree+3 on 5 nodes, 4-node cores <= 6 edges
    """
    L1 = limit // 4 + 50
    L2 = 2 * L1
    small = [(n, edge_list(n, m)) for n in (1, 2, 3) for m in rooted_masks(n)]
    tiny = [c for c in small if c[0] <= 2]
    t52 = [(5, e) for e, _k in tree_plus(5, 2)]
    out = []

    def chain(cores, modes, dias, Ls):
        for (k, ce) in cores:
            for mode in modes:
                for dia in dias:
                    for L in Ls:
                        out.append({"kind": "chain", "k": k, "core": [list(e) for e in ce], "mode": mode, "L": L,
                                    "diamond": dia})

    def fan(cores, firsts):
        for (k, ce) in cores:
            for first in firsts:
                out.append({"kind": "fan", "k": k, "core": [list(e) for e in ce], "L": L1, "first": first})
    if not thorough:
        chain(small, ("behind", "before"), (False,), (L1,))
        chain(tiny, ("behind", "before"), (False, True), (L1, L2))
        fan(small + t52, (False,))
    else:
        four5 = [(4, e) for e in sparse_rooted(4, 5)]
        four6 = [(4, e) for e in sparse_rooted(4, 6)]
        chain(small + four5, ("behind", "before"), (False, True), (L1, L2))
        chain(t52, ("behind",), (False,), (L1,))
        fan(small + [(5, e) for e, _k in tree_plus(5, 3)] + four6, (False, True))
    seen, uniq = set(), []
    for c in out:                       # quick lists the tiny cores twice
        key = repr(sorted(c.items()))
        if key not in seen:
            seen.add(key)
            uniq.append(c)
    return uniq
