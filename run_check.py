#!/venv/bin/python
"""Single entry point:  run_check.py Cxx [--tier quick|thorough] [--replay file] [--workers n]

Exit 0: property held on everything explored (KNOWN-FINDING lines possible).
Exit 1: 'VIOLATION property=<id> replay=<path>' printed for every violation that is not a listed known finding.
Exit 2: harness error (the machinery itself is at fault; nothing it reports should be believed).
"""
import argparse
import os
import sys

HERE = os.path.dirname(os.path.abspath(__file__))


def main():
    ap = argparse.ArgumentParser()
    ap.add_argument("prop")
    ap.add_argument("--tier", default=os.environ.get("VERIF_TIER", "quick"), choices=["quick", "thorough"])
    ap.add_argument("--replay")
    ap.add_argument("--workers", type=int, default=None)
    a = ap.parse_args()

    # determinism hygiene: fixed string hashing in this process and every child
    if os.environ.get("PYTHONHASHSEED") != "0":
        os.environ["PYTHONHASHSEED"] = "0"
        os.execv(sys.executable, [sys.executable] + sys.argv)

    repo = os.environ.get("VERIF_REPO", "/repo")
    sys.path.insert(0, HERE)
    sys.path.insert(0, repo)          # the working tree under test wins over any installed copy
    os.chdir(HERE)
    try:
        seed = int(os.environ.get("VERIF_SEED", "0"))
    except ValueError:
        seed = 0

    from mc import core
    ctx = core.Ctx(tier=a.tier, seed=seed, repo=repo, workers=a.workers)
    prop = a.prop.upper()
    if a.replay:
        sys.exit(core.main_replay(prop, a.replay, ctx))
    sys.exit(core.main_check(prop, ctx))


if __name__ == "__main__":
    main()
